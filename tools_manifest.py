#!/usr/bin/env python3
"""Regenerates MANIFEST.json from the table below (kept in one place so that the claimed checks,
their technique and the not_applicable list never drift apart)."""
import json, os, subprocess
HERE = os.path.dirname(os.path.abspath(__file__))

# id -> (technique, level text, level note, design section)
CLAIMED = {
 "C01": ("runtime monitor: closed-form arc-length oracle over generated polylines and an ulp-lattice of probe lengths",
         "Exploration: every at_length/at_fraction/iter/at_front/at_back call on thousands of generated 2D/3D polylines (9 layout families x 4 closure modes x scales 1e-3..1e3) is judged against a station recomputed from the stored vertices; probes include 0, L, every stored vertex length and one ulp either side. Held on what was observed; no claim about inputs the generators do not reach.",
         "Trusts the public accessors points()/lengths()/is_closed(), f64 arithmetic of the harness oracle, tolerance 1e-10*(extent+L)+1e3*u*offset. Direction clauses are not judged at vertices whose adjacent edges are exactly antiparallel (normalised sum undefined).",
         "3 / C01"),
 "C02": ("runtime monitor: exhaustive-scan (brute force over every edge / triangle) reference for closest-point, capped and angle-filtered queries",
         "Exploration: each dist_to_point / at_closest_to_point / point_closest_to / surf_closest_to / project_with_max_dist / project_with_tol / indices_in_tol / measure_point_deviation call on generated polylines (2..5000 edges) and meshes (12..50k faces; box, prism, tube, icosphere, torus, strips, height fields, nested shells) is compared with an exhaustive scan; queries on vertices, edges, faces, constructed equidistant points, near, far, inside. Held on what was observed.",
         "Trusts harness-side segment/Ericson triangle distance; tolerance 1e-9*extent+1e3*u*offset; caps and angle thresholds within a guard band are not judged (counted); the normal clause accepts the normal of any face containing the returned point. Thorough tier adds Miri and AddressSanitizer passes over the same workload (parry QBVH, SIMD emulation).",
         "3 / C02"),
 "C03": ("runtime monitor: metamorphic twin execution in a rigidly moved frame",
         "Exploration: every measurement is executed twice, in frame A and in frame B = T*A for random isometries (any axis/angle incl. exact 0, +-pi/2, pi, translations to 1e3); scalars must agree and geometric results must be related by T; round trips and compositions included. Entities: surface points, segments, planes, 2D/3D curves, meshes, point clouds, distances, point slices.",
         "Equivariance of closest points/stations is judged only where the arg-min is unique (single element strictly inside); tolerance 1e-9*extent + 1e3*u*(offset+|t|); normal/direction tolerances scale with u*offset/element size.",
         "3 / C03"),
 "C04": ("runtime monitor: conservation-law oracle (expected travel length + expected vertex list) over single requests and nested portioning histories",
         "Exploration: between_lengths / between_lengths_by_control / split_open_at_length / split_closed_at_lengths / trim_front / trim_back / reversed on generated open and closed curves with request lengths from a special lattice (0, L, vertex lengths, +-ulp, +-tol/2, +-2tol, same edge, last edge, seam, out of range) and uniform pairs; histories of up to 4 nested operations judged step by step and against the original curve.",
         "Well-posed (travel >= 4 tol, |l1-l0| >= tol) requests must succeed and are judged; ill-posed (out of range, reversed on open, travel < tol) must yield nothing; the band between is not judged. End points within tol+eps, length within 4 tol+eps.",
         "3 / C04"),
 "C05": ("runtime monitor: arc-position model P(l) + de-duplication model for resampling; segment-distance bound for simplification; definitional check for gap filling",
         "Exploration: Curve2/Curve3 resample by count / spacing / max spacing, simplify, ramer_douglas_peucker and fill_gaps on generated open and closed curves with total length on both sides of 1.0 and uneven density; the expected sample positions are pushed through the harness's own model of tolerance de-duplication and closure and compared vertex by vertex; requests must succeed whenever they yield at least two representable samples.",
         "Requests whose sample spacing is below 4x the curve tolerance, or whose de-duplication outcome depends on rounding, are not judged on count/end points (counted as skipped). Max-spacing is judged on uniformity, span and spacing <= max, not on a minimal count.",
         "3 / C05"),
 "C06": ("runtime monitor: definitional per-edge scan vs the accelerated search, plus independent soundness/completeness oracles computed in the harness",
         "Exploration: Curve2::ray_intersections / try_create_spanning_ray / max_intersection / farthest_point_direction_distance / intersection with a surface point's normal line on polylines of 5..5000 edges in layouts that shape the bounding-volume tree differently, with rays at every multiple of 15 degrees, exact axis directions incl. -0.0, origins inside/outside/behind/on a vertex/on an edge, lines through two vertices and lines parallel to an edge. The accelerated list must equal the sorted, 1e-8-de-duplicated per-edge list; independently every robust sign-change edge must be represented, every reported crossing must lie on its edge, and a vertex that is exactly the ray origin must be reported at t=0.",
         "Definitional oracle uses the public per-edge primitive (declared exception in DESIGN 2.4); the independent oracles skip edges nearer to the line than 1e-9*(extent+offset), |det| < 1e-10 and crossing angles with sin < 1e-6 (counted). Thorough tier adds Miri and AddressSanitizer passes (custom SIMD slab test over parry's QBVH).",
         "3 / C06"),
 "C07": ("runtime monitor: known-displacement oracle, residual recomputation, and an offline checker over the hooked Levenberg-Marquardt event log (set_params / residuals / jacobian)",
         "Exploration: points_to_curve (2D) and points_to_mesh (3D, both DistMode values) on asymmetric references with harness-drawn samples; displacement and starting guess inside a calibrated basin (incl. starting guesses that are large poses with pitch exactly or nearly +-90 degrees) must be recovered; for every Ok result (in or out of the basin) each residual is recomputed from the returned transform, the objective must not exceed its value at the start, and the recorded LM trace is replayed: every residual/Jacobian evaluation must belong to the latest set_params, logged residuals must equal the residuals at the logged parameters, sampled Jacobian rows must match central differences, and the returned transform must be the transform at the final parameters.",
         "Basin (2D: 2% of size / 6 deg; 3D: 3% / 6 deg, shared between displacement and guess) is half of the region in which every calibration run on the unchanged tree converged; samples keep a margin from corners/creases where the surface normal is a tie; recovery tolerance 1e-6*size (1e-4 ToPoint). Uses hook H3 (event log).",
         "3 / C07"),
 "C08": ("runtime monitor: algebraic identities of the parameter objects, explicit Rx*Ry*Rz formulas, and central finite differences (chain rule for the point-point norm) as derivative oracle",
         "Exploration: RcParams2/RcParams3 from_initial/set over the full Euler range incl. pitch +-pi/2 +- {0,1e-12..1e-2}, rotation centres to 1e3, pure-translation / pure-rotation / mixed updates; iso2/iso3 parameter round trips; RotationMatrices from_euler / from_rotation against explicit matrices and finite differences; every entry of the 2D point-surface and 3D point-plane / reference-side / point-point Jacobians against finite differences of the residual they differentiate; ParamHandler with 2-5 bodies, any static index, with and without initial isometries.",
         "Inside the library's own gimbal band (|sin pitch| > 1-1e-8) extraction snaps pitch by design: tolerance 3e-4 there; nalgebra Euler extraction conditioning 1/sqrt(1-s^2) is allowed for. Point-plane cases on the kink of |.| are not judged. Uses hook H2 (re-export of the private 2D Jacobian).",
         "3 / C08"),
 "C09": ("runtime monitor: normal-equation orthogonality with oracle-computed condition number; stationarity of the circle fit; defining constraints of the three-point circle; inlier count for RANSAC",
         "Exploration: Polynomial<K>::least_squares for K = 2..6 on asymmetric, offset, clustered and repeated abscissae with and without weights (exact data must be recovered; for arbitrary data the weighted residual must be orthogonal to every monomial column, hence optimal); Series1::best_fit_line against the degree-1 fit; Circle2::fitting_circle from nearby guesses on arcs of 60..360 degrees (exact recovery, stationarity for noisy data); Circle2::from_3_points on triangles with min angle >= 5 degrees and exactly collinear triples; seeded Circle2::ransac on contaminated data.",
         "Bounds scale with the condition number of the weighted Gram matrix computed by the oracle's SVD (cond > 1e7 skipped and counted); circle-fit gradient bound 1e-4|J||r| plus the rounding floor; Gaussian weighting judged on exact samples only.",
         "3 / C09"),
 "C10": ("runtime monitor: sections generated as envelopes of circles along a known camber curve (closed-form medial axis, radius law, edge apexes, gauge thicknesses); metamorphic twins (rigid motion, reversed vertex order, rotated start vertex; the same locator at the front and at the back of the camber line); step counters hooked into the search loops",
         "Exploration: closed and open sections (camber length 0.3..300, straight and curved camber, thickness 4-25%, maximum at 28-42%, 200-3000 unevenly spaced points, any pose, mirror image, both windings, any start vertex) analysed with {TMaxFwd, DirectionFwd(+-chord)} x 8 edge locators at either end x {Detect, UpperDir} x three tolerances. Every accepted analysis: each station's distance to the section equals its radius, contacts on the section one radius away on opposite sides, stations ordered from leading to trailing edge, centres on the known camber and radii on the known law, edge points on the section / at the camber ends / at the requested end, surfaces partition the perimeter on the requested or detected side, find_tmax / get_thickness_max / OnCamber and Radius gauges against closed forms; twins give the same measurements; every analysis runs under a step bound (hook).",
         "An Err is 'not accepted' and is not judged (acceptance per locator is reported). The analysis tolerance is at least twice the chord sag of the sampled section. Stations and edge points added by the heuristic locators (ConstRadiusEdge, TraceToMaxCurvature, ConvergeTangentEdge, RansacRadiusEdge) are judged with the same clauses but reported as one clause per locator (four known findings); the measurement clauses are judged for configurations that use IntersectEdge / FitRadiusEdge / OpenEdge / OpenIntersectGap only.",
         "3 / C10"),
 "C11": ("runtime monitor: defining-constraint oracle with a configuration classifier (exactly constructed tangent cases) and an independently computed bounding box",
         "Exploration: circle-circle intersections in every relative position (separate, externally/internally tangent, crossing, nested, concentric, equal radii, identical), intersection intervals, circle-segment and curve-circle intersections, tangent points from external points at d/r from 1+1e-6 to 1e3, outer tangent segments, arcs by angles and through three points at every scale (well-shaped triangles down to 1e-3 across; start/end/sweep sign/length/fraction), and the cached bounding boxes of circles and arcs against dense samples and an independent box.",
         "Tangent configurations are built on dyadic, axis-aligned coordinates so that they are exact; non-constructed cases stay >= 1e-6 r away from tangency; on-object tolerance 1e-9*scale. The private line-circle primitive is observed through the public segment intersection. Known finding: reversed left/right order of outer tangents for equal radii (cannot be repaired without editing an existing unit test).",
         "3 / C11"),
 "C12": ("runtime monitor: union-find / multiset counting oracles, exhaustive enumeration of small face lists, repetition across hash-iteration orders, hooked step bounds",
         "Exploration with an exhaustively enumerated sub-space: every set of <= 5 oriented faces over 5 labelled vertices and of <= 4 over 6 (123 789 meshes: disks, fans, bow-ties, flipped neighbours, Moebius strips, tetrahedra, fins) plus random larger meshes (grid disks with holes, tubes, closed surfaces, multi-component, welded vertices, flipped faces, permuted labels), voxel sets and index-pair lists. calc_edges must err exactly for edges shared by > 2 faces, otherwise list each undirected edge once with its length, map faces to edges and return boundary loops that are closed cycles containing every boundary edge exactly once; get_patches and clusters_from_sparse must be the exact connectivity partitions; chained_indices must use every pair once and be maximal; every call is repeated so that several hash-iteration orders occur and is bounded by hooked step counters; create_box / create_cylinder must be consistently wound with outward normals.",
         "Termination is judged as bounded progress (8(F+E+V+1)^2 steps on the hooked loops); patch decomposition is judged only for meshes without an edge shared by more than two faces, as the property states. Uses hooks H1/H4.",
         "3 / C12"),
 "C13": ("runtime monitor: incidence and exactly-once segment accounting against harness-computed plane-face crossings, convex-hull perimeter, area conservation, rigid-motion equivariance; child-process guard for calls that may not terminate",
         "Exploration: Mesh::section and Mesh::split on boxes, prisms, icospheres and tori in random pose with planes of any normal and offset (mesh vertices kept >= 1e-4*size from the plane): every returned vertex on plane and surface, consecutive vertices joined across one face, every crossing segment used exactly once, closed loops for watertight meshes, one loop with the hull perimeter for convex solids, empty result for a miss, split parts on their own sides with areas adding up, and commutation with rigid motion. Planes exactly through vertices/edges/faces and sections of open meshes are first executed in a sacrificial child process with memory and time limits.",
         "Known findings (dependency parry3d 0.18 intersection_with_local_plane does not terminate): sections whose polyline has free ends (open meshes) and some planes exactly through vertices, edges or faces. The in-process main stream relies on the 1e-4*size clearance (no non-termination observed in 280 000 sections).",
         "3 / C13"),
 "C14": ("runtime monitor: sequential BTreeSet model over an independently evaluated per-face predicate; chains repeated across hash orders and starting-index permutations",
         "Exploration: chains of 1-6 Add/Remove/Keep steps over facing(n, angle) and near_mesh(ref, all|any, distance, planar?, angle?) on boxes, spheres, tori and height fields with a slightly moved / partial reference mesh, from none / all / random index selections; after every step the library's selection must equal the model's set operation on every face whose predicate is outside the guard bands; the whole chain is repeated and re-run with permuted starting indices and must give the identical selection; create_from_indices / create_mesh must contain exactly the selected triangles (bit-equal coordinates, same winding) and only the vertices they use; a second stream builds meshes from index lists (identity, permutations, subsets, repeats, lists of face-count length) on meshes that also carry vertices no face uses.",
         "The per-vertex projection onto the reference mesh is taken from the public project_with_max_dist (declared exception); thresholds have guard bands (1e-9 relative, 1e-7 rad); empty selections are not turned into meshes.",
         "3 / C14"),
 "C15": ("runtime monitor: brute-force oracles over all points / faces for every query; 7-sigma frequency monitor for uniform sampling; the dependency's leaf-size rule replayed to classify point sets",
         "Exploration: KdTree<2>, KdTree<3>, PartialKdTree<3> nearest_one / nearest(k) / within(r) on uniform, clustered, integer-grid, axis-line and duplicated point sets (1..20000 points) with queries inside, outside and on points, k = 1..n+3, radii 0..2x extent, each result compared with an exhaustive scan (distances, index/distance agreement, membership, order, no repeats); sample_poisson_disk over random visiting orders (subset, first kept, pairwise separation, coverage); Mesh sample_uniform / sample_dense / sample_poisson (on surface, face normal, per-face frequency, separation); convex_hull_2d / farthest_pair_indices / point_order_direction / from_points_ccw against O(n^2) definitions; ball pivoting (centre distances, empty ball).",
         "Ties between equal distances are free; radius membership is not judged within 1e-12 relative of the radius; the uniform-sampling clause is statistical (false-alarm probability < 1e-9 per run). Known findings: every index-returning k-d tree clause in the class 'tree-leaf>32-points' (kiddo 5.0.3 defect); the class 'tree-leaves<=32-points' is judged strictly.",
         "3 / C15"),
 "C16": ("runtime monitor: brute-force signed-distance oracle for deviations; Vec / three-vector sequential models over random call histories for the aggregates; defining rule for the breakpoint table",
         "Exploration: point_curve2_deviation / line_surface_deviations / Mesh::measure_point_deviation (both modes) with measured points on both sides, in the 1e-6 coincidence band, at corners and beyond open ends; Distance2/Distance3 value, reversal, centre; histories of up to 200 SurfaceDeviationSet new/push/push_new calls with ties, equal extremes and one-signed values checked after every call against a Vec model (max, min, symmetric zone, len, order); histories of PointCloud try_new/empty/append/merge/create_from_indices/transform with consistent and inconsistent normal/colour presence (accepted operations append exactly, rejected ones change nothing, lengths stay equal); breakpoint tables queried at, between, one ulp around and beyond both ends.",
         "Deviation sign judged only where the closest edges/faces agree on the side; below the library's absolute 1e-6 coincidence threshold only |value| <= distance is required.",
         "3 / C16"),
 "C17": ("runtime monitor: structural invariant after every constructor/derivation plus a piecewise-linear reference model",
         "Exploration: DiscreteDomain::linear / linear_space with bounds in both orders, TryFrom<Vec>, push histories against a Vec model, index_of/bounds; Series1 interpolate (knots, +-ulp, outside), between/in_interval with bounds inside the domain (exact ends, same function), split_at_x (areas add up, pieces meet at x), resampled_n/resampled_x (ends kept, on the graph), y_crossings (on level, every sign change represented), and chains of up to 6 derived operations with the structural invariant (finite ascending abscissae, matching ordinates) judged after every step.",
         "Slices are requested inside the domain; for a flat run lying on the level the crossings must contain the knots of the run (one case in five is such a run); a loud panic on a degenerate (< 2 knots) series is not counted as a silently invalid object. Known finding: linear_space with start > end returns a descending domain.",
         "3 / C17"),
 "C18": ("runtime monitor: modular-arithmetic and set-definition oracles on an ulp-lattice of special angles and bounds plus uniform samples",
         "Exploration: angle_signed_pi / angle_to_2pi / signed_compliment_2pi / angle_in_direction / signed_angle / directed_angle on the lattice {k*pi/2, +-1e6, +-1e-300, +-0} with one ulp either side and uniform angles to +-1e6, vector pairs incl. equal, opposite, perpendicular, tiny and huge; AngleInterval membership, negative extents, full turns, intersects and at_fraction against an arc-overlap oracle; Interval construction (NaN rejection), contains, contains_interval, overlaps, intersection, clamp, length against set definitions incl. equal and infinite bounds.",
         "Same-direction tolerance 1e-9; AngleInterval membership not judged within 1e-9 of either end (library ANGLE_TOL 1e-12).",
         "3 / C18"),
 "C19": ("runtime monitor: orthonormality / handedness identities, variance definition, convention-free weight clauses and rigid-motion equivariance",
         "Exploration: SvdBasis2/SvdBasis3::from_points on generic, planar, collinear and coincident point sets at offsets to 1e3, unweighted / equal / 0-1 / arbitrary weights (centre = weighted mean, orthonormal basis, non-increasing singular values, sv^2/n = variance along the axis, round trip through the basis, rank, equivariance, weight scaling, subset reproduction); the six two-vector frame constructors plus iso3_from_basis / iso3_from_xyo / iso2_from_basis on vector pairs of any length, skew down to 1e-6 rad, negated axes (half-turn frames), parallel and zero inputs; Plane3 from three points / point+normal / surface point, projection, inversion, ray-plane distance.",
         "Basis vectors compared up to sign and only where singular values are separated; frame constructor inputs with |a x b| < 1e-8 that are not exactly degenerate are not judged. Known finding: minor axes of strongly anisotropic weighted sets are returned about 1e-3 rad off by the dependency (own input class).",
         "3 / C19"),
 "C20": ("runtime monitor: the input mesh is its own oracle (edge lengths, orientation, pairwise distances); metamorphic twins under rigid motion and relabelling; topological classification of the generated inputs for the rejection clause; barycentric oracle for the UV round trip",
         "Exploration: planar disks (jittered grids with random diagonals, strips, fans with and without a centre vertex, star-shaped, L- and U-shaped regions; 1..5000 faces) with permuted vertex labels, shuffled faces, rotated triples, optionally all faces reversed, random scale and 3-D pose: Ok, one finite position per vertex, every edge keeps its length, every face positive, random vertex pairs keep their distance; curved disks (height fields, spherical caps) and planar ones flattened before and after a rigid motion (pairwise distances and orientation agree to 1e-9) and after relabelling (accepted alike); non-disks (closed, annulus, two holes, two disks, fin, punctured torus, disk plus closed component, disks pinched at a vertex) must give Err without panic; meshes built with new_with_uv from the layout: uv_with_tol on and off the surface (UV = barycentric image, depth = signed offset) and uv_to_3d (surface point, face normal).",
         "Edge-length tolerance (2e-6 + 2e-7 D^2) relative, D = vertex-graph diameter, because the code regularises the Laplacian with 1e-8 (measured perturbation up to 4e-8 D^2); generated triangulations are unfolded with no angle below 8 degrees; the relabelled twin is not compared with the original layout (the discrete conjugate is not rotation invariant).",
         "3 / C20"),
}

def main():
    props = [json.loads(l) for l in open(os.path.join(HERE, "properties.jsonl"))]
    hooks = subprocess.run(["git", "-C", "/repo", "log", "--format=%H %s"], capture_output=True, text=True).stdout.splitlines()
    hook_commits = [l.split()[0] for l in hooks if l.split(" ", 1)[1].startswith("verif hooks:")]
    checks, na = [], []
    for p in props:
        pid = p["id"]
        if pid in CLAIMED:
            tech, text, note, ref = CLAIMED[pid]
            checks.append({
                "property_id": pid,
                "quick_cmd": f"./check {pid} --tier quick",
                "thorough_cmd": f"./check {pid} --tier thorough",
                "evidence_file": f"evidence/{pid}.json",
                "replay_cmd_template": f"./check {pid} --replay {{path}}",
                "engine": "vmon",
                "level_claimed": {"category": "exploration", "text": text, "design_ref": f"DESIGN.md section {ref}"},
                "level_note": note,
                "technique": tech,
            })
        else:
            na.append({"property_id": pid, "reason": "not claimed in this revision: its runtime monitor has not been built yet (see DESIGN.md section 3 for the planned monitor)"})
    m = {
        "version": 1,
        "setup_cmd": "./check --setup",
        "hooks": {
            "guard": "verif",
            "enable": "cargo feature `verif` of engeom (the harness depends on engeom = { path = \"/repo\", features = [\"verif\"] })",
            "baseline_off_cmd": "cd /repo && cargo test --workspace --no-fail-fast --offline",
            "source_commits": hook_commits,
            "add_only": True,
        },
        "engines": [{
            "name": "vmon", "path": "harness",
            "serves_properties": sorted(CLAIMED),
            "kind_free_text": "Rust harness linking the real engeom (path dependency on /repo, feature verif, overflow checks and debug assertions on for engeom): generators + reference-model oracles + hooked step counters / LM event log; python driver ./check",
        }],
        "checks": checks,
        "not_applicable": na,
        "notes": "Technique family: runtime monitoring and sanitizers. Exit codes: 0 held, 1 violation (VIOLATION line), 3 inconclusive (build failure, watchdog, clause never exercised).",
    }
    json.dump(m, open(os.path.join(HERE, "MANIFEST.json"), "w"), indent=1)
    print("MANIFEST.json:", len(checks), "checks,", len(na), "not claimed")

if __name__ == "__main__":
    main()
