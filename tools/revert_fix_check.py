#!/usr/bin/env python3
"""For every `fixed` entry of known_findings.json: revert that fix commit in /repo's working tree
(git show <commit> | git apply -R), run the quick check of its property, confirm that the recorded
signature is reported again (exit 1), and restore the tree."""
import json, subprocess, sys
def sh(c): return subprocess.run(c, shell=True, capture_output=True, text=True)
assert sh("git -C /repo status --porcelain -- src Cargo.toml").stdout.strip() == "", "/repo dirty"
kf = json.load(open("/verif/known_findings.json"))["findings"]
sel = sys.argv[1:]
bad = 0
for f in kf:
    if f["status"] != "fixed": continue
    if sel and f["property"] not in sel: continue
    pre = "".join(f"git show {c} -- src | git apply -R && " for c in f.get("revert_also", []))
    r = sh(f"cd /repo && {pre}git show {f['commit']} -- src | git apply -R")
    if r.returncode != 0:
        print("cannot revert", f["commit"], r.stderr[:200]); bad += 1; sh("git -C /repo checkout -- ."); continue
    try:
        p = sh(f"cd /verif && ./check {f['property']} --tier quick")
    finally:
        sh("git -C /repo checkout -- .")
    sigs = [l.strip()[len("signature: "):] for l in p.stdout.splitlines() if l.strip().startswith("signature:")]
    ok = p.returncode == 1 and f["signature"] in sigs
    print(("OK  " if ok else "FAIL"), f["property"], f["commit"], "exit", p.returncode, "recorded signature reported again:", f["signature"] in sigs, f"({len(sigs)} signatures)")
    if not ok: bad += 1
sys.exit(1 if bad else 0)
