#!/bin/bash
# mutcheck.sh <patch.diff> <Cxx> [<Cyy> ...] : apply a seeded change to /repo, run the quick checks named,
# and undo it straight afterwards.  Prints the exit code of each check.
P=$1; shift
cd /repo || exit 2
if [ -n "$(git status --porcelain -- src Cargo.toml)" ]; then echo "refusing: /repo working tree is dirty"; exit 2; fi
git apply "$P" || { echo "patch does not apply"; exit 2; }
trap 'git -C /repo checkout -- . ' EXIT
for id in "$@"; do
  out=$(cd /verif && VERIF_SEED=${VERIF_SEED:-1} ./check $id --tier ${TIER:-quick} 2>&1); rc=$?
  echo "--- $id rc=$rc"; echo "$out" | grep -E "VIOLATION|signature|INCONCLUSIVE|verdict" | head -${LINES_MAX:-12}
done
