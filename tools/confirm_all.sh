#!/bin/bash
# confirm_all.sh Cxx : confirm every mutant delivered in /tmp/mut/Cxx/out
id=$1
for m in /tmp/mut/$id/out/m*; do
  [ -f "$m/patch.diff" ] || continue
  /verif/tools/confirm_mutant.sh /tmp/mut/$id "$m"
done > /tmp/mut/$id/confirm.txt 2>&1
echo done $id
