#!/usr/bin/env python3
"""sweep.py <tier> <seed> [<seed> ...] [-- Cxx ...] : run the registered check of every property (or
the listed ones) at each seed and report everything that is not `held` — the silence test of
DESIGN.md section 6.1.  Output: one line per (property, seed) that printed VIOLATION or INCONCLUSIVE
or exited non-zero, then a summary.  Nothing is written except the usual evidence files."""
import json, os, subprocess, sys, time
HERE = os.path.dirname(os.path.dirname(os.path.abspath(__file__)))
args = sys.argv[1:]
tier = args[0]
rest = args[1:]
props = None
if "--" in rest:
    i = rest.index("--")
    props = rest[i + 1:]
    rest = rest[:i]
seeds = [int(s) for s in rest]
if props is None:
    props = [c["property_id"] for c in json.load(open(os.path.join(HERE, "MANIFEST.json")))["checks"]]
bad = 0
t00 = time.time()
for seed in seeds:
    for pid in props:
        env = dict(os.environ, VERIF_SEED=str(seed))
        t0 = time.time()
        p = subprocess.run(["./check", pid, "--tier", tier], cwd=HERE, env=env, stdout=subprocess.PIPE, stderr=subprocess.STDOUT, text=True)
        lines = [l for l in p.stdout.splitlines() if l.startswith("VIOLATION") or l.startswith("INCONCLUSIVE") or l.strip().startswith("signature:")]
        if p.returncode != 0 or lines:
            bad += 1
            print(f"NOT-HELD {pid} seed={seed} tier={tier} exit={p.returncode} ({time.time() - t0:.0f}s)", flush=True)
            for l in lines[:12]:
                print("    " + l[:300], flush=True)
        else:
            print(f"held {pid} seed={seed} ({time.time() - t0:.0f}s)", flush=True)
print(f"sweep {tier} seeds {seeds}: {len(seeds) * len(props)} runs, {bad} not held, {time.time() - t00:.0f}s")
sys.exit(1 if bad else 0)
