#!/usr/bin/env python3
"""keep_mutants.py Cxx : copy the mutants an agent delivered under /tmp/mut/Cxx/out into
/verif/seeded/Cxx-mK/ (patch.diff, demo.rs, meta.json), recording the independent confirmation
(confirm_mutant.sh output).  Only mutants whose confirmation shows: demo passes on the clean tree,
pre-existing unit+doc tests pass with the patch, demo fails with the patch, are kept."""
import json, os, re, shutil, sys
arg = sys.argv[1]            # "C02" or, for a later round of authors, "C02r2"
m_ = re.match(r"(C\d\d)(?:r(\d))?$", arg)
pid = m_.group(1)
offset = 3 * (int(m_.group(2)) - 1) if m_.group(2) else 0
base = f"/tmp/mut/{arg}"
conf = {}
for line in open(f"{base}/confirm.txt"):
    m = re.match(r"RESULT (\S+) (.*)", line)
    if m: conf[os.path.basename(m.group(1))] = m.group(2)
for mk0 in sorted(os.listdir(f"{base}/out")):
    d = f"{base}/out/{mk0}"
    mk = f"m{int(mk0[1:]) + offset}" if re.match(r"m\d+$", mk0) else mk0
    if not os.path.exists(f"{d}/patch.diff"): continue
    c = conf.get(mk0, "")
    res = re.findall(r"test result: (\w+)\. (\d+) passed; (\d+) failed", c)
    ok_clean = "clean-demo-rc=0" in c
    # res = [lib, demo, doc]
    note = ""
    good = ok_clean and len(res) == 3 and res[1][0] == "FAILED" and res[2][0] == "ok"
    if good and res[0][0] != "ok":
        # a failing lib test: accept only when it is the known flaky stress test unrelated to the patch
        log = open(f"{d}/confirm.log").read()
        failed = set(re.findall(r"^test (\S+) \.\.\. FAILED", log, re.M)) - {"deviation_just_past_a_corner_small_scale","deviation_just_past_an_edge_small_scale"}
        flaky = {"geom3::align3::tests::test_iso3_param_round_trips_stress_test", "geom3::align3::tests::test_iso3_param_round_trips_stress_test_rc", "geom3::align3::rotations::tests::test_wpr_rot_mat_round_trip_stress"}
        lib_failed = {f for f in failed if "::tests::" in f}
        if lib_failed and lib_failed <= flaky:
            note = "one pre-existing randomised stress test (" + ", ".join(sorted(lib_failed)) + ") failed in the confirmation run; it is flaky on the unchanged tree too (random pose within 1e-6 of gimbal lock) and unrelated to this patch"
        else:
            good = False
    if not good:
        print(f"SKIP {pid}-{mk}: confirmation not clean: {c[:200]}")
        continue
    dst = f"/verif/seeded/{pid}-{mk}"
    os.makedirs(dst, exist_ok=True)
    shutil.copy(f"{d}/patch.diff", dst)
    shutil.copy(f"{d}/demo.rs", dst)
    meta = json.load(open(f"{d}/meta.json"))
    out = {
        "id": f"{pid}-{mk}",
        "breaks_property": pid,
        "summary": meta.get("summary"),
        "needs_to_manifest": meta.get("needs"),
        "files": meta.get("files"),
        "origin": "written by an independent sub-agent given only the property text and a scratch worktree",
        "confirmed": {
            "how": "tools/confirm_mutant.sh in a scratch worktree: (a) demo.rs as tests/demo.rs passes on the clean tree; (b) with patch.diff applied `cargo test --workspace --offline --no-fail-fast`: pre-existing unit tests and doc tests pass, demo fails",
            "clean_tree_demo": "pass",
            "mutant_unit_tests": f"{res[0][1]} passed, {res[0][2]} failed",
            "mutant_demo": f"{res[1][1]} passed, {res[1][2]} failed",
            "mutant_doc_tests": f"{res[2][1]} passed, {res[2][2]} failed",
        },
    }
    if note: out["confirmed"]["note"] = note
    old = f"{dst}/meta.json"
    if os.path.exists(old):
        o = json.load(open(old))
        if "detected_by" in o: out["detected_by"] = o["detected_by"]
    json.dump(out, open(old, "w"), indent=1)
    print(f"KEPT {pid}-{mk}")
