#!/usr/bin/env python3
"""run_seeded.py [name-prefix ...] : apply each kept seeded change to /repo, run the quick check of the
property it breaks (plus any `also_check` listed in its meta.json), undo it, and record in meta.json
which checks raised a VIOLATION.  Writes /verif/seeded/RESULTS.md."""
import json, os, subprocess, sys, time
S = "/verif/seeded"
sel = sys.argv[1:]
def sh(cmd, **kw): return subprocess.run(cmd, shell=True, capture_output=True, text=True, **kw)
assert sh("git -C /repo status --porcelain -- src Cargo.toml").stdout.strip() == "", "/repo dirty"
names = sorted(d for d in os.listdir(S) if os.path.isdir(f"{S}/{d}"))
for n in names:
    if sel and not any(n.startswith(p) for p in sel): continue
    meta = json.load(open(f"{S}/{n}/meta.json"))
    checks = [meta["breaks_property"]] + meta.get("also_check", [])
    # a change written before a later fix touched the same lines is applied to the tree without that fix
    pre = "".join(f"git show {c} -- src | git apply -R && " for c in meta.get("apply_without_fix", []))
    r = sh(f"cd /repo && {pre}git apply {S}/{n}/patch.diff")
    if r.returncode != 0: sh("git -C /repo checkout -- .")
    if r.returncode != 0:
        print(n, "PATCH DOES NOT APPLY", r.stderr[:200]); continue
    det = {}
    try:
        for pid in checks:
            t0 = time.time()
            p = sh(f"cd /verif && VERIF_SEED={os.environ.get('VERIF_SEED','1')} ./check {pid} --tier quick")
            sigs = [l.strip()[len("signature: "):] for l in p.stdout.splitlines() if l.strip().startswith("signature:")]
            det[pid] = {"exit": p.returncode, "signatures": sigs[:6], "wall_s": round(time.time() - t0, 1)}
    finally:
        sh("git -C /repo checkout -- .")
    meta["detected_by"] = det
    meta["what_was_run"] = ("".join(f"git show {c} -- src | git apply -R; " for c in meta.get("apply_without_fix", []))) + "git -C /repo apply patch.diff; ./check <property> --tier quick (VERIF_SEED=%s); git -C /repo checkout -- ." % os.environ.get('VERIF_SEED','1')
    json.dump(meta, open(f"{S}/{n}/meta.json", "w"), indent=1)
    print(n, {k: v["exit"] for k, v in det.items()})
# summary
rows = []
for n in names:
    meta = json.load(open(f"{S}/{n}/meta.json"))
    det = meta.get("detected_by", {})
    caught = [k for k, v in det.items() if v["exit"] == 1]
    note = " (applied to the tree without fix %s)" % ",".join(meta["apply_without_fix"]) if meta.get("apply_without_fix") else ""
    rows.append(f"| {n} | {meta['breaks_property']} | {(meta.get('summary') or '')[:110].replace('|','/')} | {(', '.join(caught) + note) if caught else ('MISSED' if det else 'not run')} |")
open(f"{S}/RESULTS.md", "w").write("# Seeded changes and the checks that catch them\n\n| change | property | what it changes | caught by (quick) |\n|---|---|---|---|\n" + "\n".join(rows) + "\n")
