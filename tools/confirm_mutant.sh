#!/bin/bash
# confirm_mutant.sh <worktree> <mutant-dir> : independently confirm a seeded change in a scratch worktree:
#   (a) demo passes on the clean tree, (b) with the patch the crate compiles, the pre-existing unit+doc
#   tests pass and the demo fails.  Prints one summary line; writes <mutant-dir>/confirm.log
WT=$1; M=$2
export CARGO_NET_OFFLINE=true
cd "$WT" || exit 2
git checkout -q -- src Cargo.toml 2>/dev/null
mkdir -p tests; cp "$M/demo.rs" tests/demo.rs
LOG="$M/confirm.log"; : > "$LOG"
echo "== clean tree: demo" >> "$LOG"
cargo test --offline --test demo >> "$LOG" 2>&1; A=$?
if ! git apply --check "$M/patch.diff" 2>>"$LOG"; then echo "RESULT $M patch-does-not-apply"; rm -rf tests; exit 1; fi
git apply "$M/patch.diff"
echo "== mutant: whole suite" >> "$LOG"
cargo test --workspace --offline --no-fail-fast >> "$LOG" 2>&1
UNIT=$(grep -E "^test result:" "$LOG" | tail -n +2 | sed -n 1p)
# summarise: lib tests, demo, doc tests (order of cargo output: lib, demo, doc)
RES=$(awk '/== mutant/{f=1} f && /^test result:/{print}' "$LOG" | tr '\n' '|')
git checkout -q -- src Cargo.toml; rm -rf tests
echo "RESULT $M clean-demo-rc=$A mutant: $RES"
