#!/usr/bin/env python3
"""sanitize.py <Cxx> <seed> : the sanitizer layer of the thorough tier (DESIGN.md 1.1).

engeom itself has no `unsafe`; the five properties C02, C06, C13, C15, C20 are wrappers around
third-party code that has (kiddo k-d tree, parry QBVH / SIMD emulation, faer sparse LU).  For these
the same monitor binary is run again

  * under AddressSanitizer  (nightly, -Zsanitizer=address, target x86_64-unknown-linux-gnu) over a
    quick-size workload, and
  * under Miri              (cargo +nightly miri run) over a miniature workload (Miri is about four
    orders of magnitude slower), single-threaded, with the child-process probe disabled.

A sanitizer report voids what the monitor saw: it is reported as
    VIOLATION property=<id> replay=<log file>
and exit status 1.  A build or tool failure is INCONCLUSIVE (exit 3), never a violation.  The result
(what ran, how many judged executions the monitor made under each tool, reports found) is merged into
evidence/<id>.json under coverage.sanitizers.  Set VERIF_NO_SANITIZERS=1 to skip (recorded as skipped).
"""
import json, os, re, subprocess, sys, time

HERE = os.path.dirname(os.path.abspath(__file__))
HARNESS = os.path.join(HERE, "harness")
EVID = os.path.join(HERE, "evidence")
LOGS = os.path.join(HERE, "replays", "sanitizer")
KNOWN = os.path.join(HERE, "known_findings.json")
TRIPLE = "x86_64-unknown-linux-gnu"
SHARDS = 12  # interpreter processes per stream (each single-threaded)
PAR = 14     # of them at a time

# streams that can run under each tool: Miri cannot spawn the sacrificial child of the C13 section
# probe, and must not be asked to run the statistical / large-mesh streams
MIRI = {
    "C02": dict(scale=0.0004, streams=["curve2", "curve3", "mesh"]),
    "C06": dict(scale=0.0004, streams=None),
    "C13": dict(scale=0.001, streams=["closed-meshes"]),
    "C15": dict(scale=0.0004, streams=["kdtree3", "kdtree2", "poisson", "hull"]),
    "C20": dict(scale=0.002, streams=["planar", "rejection"]),
}
ASAN = {
    "C02": dict(scale=2.0), "C06": dict(scale=4.0), "C13": dict(scale=1.0), "C15": dict(scale=2.0), "C20": dict(scale=2.0),
}


def log(m):
    print(m, flush=True)


def env_for(target_dir, extra=None):
    e = dict(os.environ)
    e.update({"CARGO_NET_OFFLINE": "true", "CARGO_TARGET_DIR": os.path.join(HERE, "target", target_dir), "CARGO_TERM_COLOR": "never"})
    if extra:
        e.update(extra)
    return e


def monitor_summary(text):
    """the summary line `Cxx quick seed=.. verdict=.. evaluations=N clause-judgements=M ...`"""
    m = re.search(r"verdict=(\w+) evaluations=(\d+) clause-judgements=(\d+)", text)
    return dict(verdict=m.group(1), evaluations=int(m.group(2)), clause_judgements=int(m.group(3))) if m else None


def run_asan(pid, seed):
    conf = ASAN[pid]
    env = env_for("asan", {"RUSTFLAGS": "-Zsanitizer=address -Cforce-frame-pointers=yes"})
    t0 = time.time()
    b = subprocess.run(["cargo", "+nightly", "build", "--release", "--offline", "--quiet", "--target", TRIPLE], cwd=HARNESS, env=env, stdout=subprocess.PIPE, stderr=subprocess.STDOUT, text=True)
    if b.returncode != 0:
        return dict(tool="asan", status="inconclusive", reason="ASan build failed: " + b.stdout[-600:])
    build_s = time.time() - t0
    exe = os.path.join(HERE, "target", "asan", TRIPLE, "release", "vmon")
    logf = os.path.join(LOGS, f"{pid}-asan-seed{seed}.log")
    env["ASAN_OPTIONS"] = "halt_on_error=1:abort_on_error=0:exitcode=66:detect_leaks=0:allocator_may_return_null=1"
    cmd = [exe, pid, "--tier", "quick", "--seed", str(seed), "--scale", str(conf["scale"]), "--known", KNOWN, "--evidence", os.path.join(LOGS, f"{pid}-asan-evidence.json"), "--replay-dir", os.path.join(LOGS, "cases")]
    t0 = time.time()
    try:
        p = subprocess.run(cmd, cwd=HERE, env=env, stdout=subprocess.PIPE, stderr=subprocess.STDOUT, text=True, timeout=3 * 3600)
    except subprocess.TimeoutExpired:
        return dict(tool="asan", status="inconclusive", reason="time limit")
    open(logf, "w").write(p.stdout)
    reports = len(re.findall(r"ERROR: AddressSanitizer", p.stdout))
    summ = monitor_summary(p.stdout)
    res = dict(tool="asan", build_s=round(build_s, 1), run_s=round(time.time() - t0, 1), scale=conf["scale"], exit=p.returncode, reports=reports, monitor=summ, log=os.path.relpath(logf, HERE))
    if reports or p.returncode == 66:
        res["status"] = "violated"
    elif p.returncode in (0, 1) and summ:
        # exit 1 = the behavioural monitor itself reported something under this build; that is the
        # monitor's business (it has already run without the sanitizer), not a sanitizer report
        res["status"] = "clean" if p.returncode == 0 else "clean (monitor verdict differs from the plain build: see log)"
    else:
        res["status"] = "inconclusive"
        res["reason"] = f"monitor ended with status {p.returncode} under ASan"
    return res


def run_miri(pid, seed):
    """build once, then SHARDS single-threaded interpreter processes in parallel (one per seed offset and stream)"""
    conf = MIRI[pid]
    env = env_for("miri", {"MIRIFLAGS": "-Zmiri-disable-isolation -Zmiri-ignore-leaks"})
    logf = os.path.join(LOGS, f"{pid}-miri-seed{seed}.log")
    os.makedirs(LOGS, exist_ok=True)
    t0 = time.time()
    base = ["cargo", "+nightly", "miri", "run", "--offline", "--quiet", "--bin", "vmon", "--"]
    b = subprocess.run(base + ["--list"], cwd=HARNESS, env=env, stdout=subprocess.PIPE, stderr=subprocess.STDOUT, text=True)
    build_s = time.time() - t0
    if b.returncode != 0 and "C01" not in b.stdout:
        return dict(tool="miri", status="inconclusive", reason="Miri build / start failed: " + b.stdout[-600:])
    streams = conf["streams"] or [None]
    jobs = []
    for j in range(SHARDS):
        for st in streams:
            sd = seed + 1000 * (j + 1)
            cmd = base + [pid, "--tier", "quick", "--seed", str(sd), "--scale", str(conf["scale"]), "--threads", "1", "--known", KNOWN,
                          "--evidence", os.path.join(LOGS, f"{pid}-miri-evidence-{j}.json"), "--replay-dir", os.path.join(LOGS, "cases")]
            if st:
                cmd += ["--stream", st]
            jobs.append((j, st, sd, cmd))
    t1 = time.time()
    running = []
    results = []
    pending = list(jobs)
    while pending or running:
        while pending and len(running) < PAR:
            j, st, sd, cmd = pending.pop(0)
            out = open(os.path.join(LOGS, f"{pid}-miri-shard{j}-{st or 'all'}.out"), "w+")
            running.append((j, st, sd, subprocess.Popen(cmd, cwd=HARNESS, env=env, stdout=out, stderr=subprocess.STDOUT, text=True), out, time.time()))
        time.sleep(1.0)
        still = []
        for (j, st, sd, p, out, ts) in running:
            if p.poll() is None:
                if time.time() - ts > 2 * 3600:
                    p.kill()
                    results.append((j, st, sd, None, "time limit"))
                else:
                    still.append((j, st, sd, p, out, ts))
                continue
            out.seek(0)
            results.append((j, st, sd, p.returncode, out.read()))
            out.close()
        running = still
    total = dict(evaluations=0, clause_judgements=0)
    status, reason = "clean", None
    with open(logf, "w") as lf:
        for (j, st, sd, rc, text) in sorted(results, key=lambda r: (r[0], str(r[1]))):
            lf.write(f"### shard {j} stream {st} seed {sd} exit {rc}\n{text}\n")
            if rc is None:
                if status == "clean":
                    status, reason = "inconclusive", f"time limit (shard {j}, stream {st})"
                continue
            ub = re.search(r"error: Undefined Behavior", text)
            other = re.search(r"error: unsupported operation|error: abnormal termination|error: the evaluated program", text)
            sm = monitor_summary(text)
            if sm:
                total["evaluations"] += sm["evaluations"]
                total["clause_judgements"] += sm["clause_judgements"]
            if ub:
                status, reason = "violated", f"Undefined Behavior reported in shard {j}, stream {st}"
            elif (other or sm is None) and status == "clean":
                status, reason = "inconclusive", f"Miri could not run shard {j}, stream {st}: " + (other.group(0) if other else f"exit {rc}, no summary line")
    for j in range(SHARDS):
        for st in streams:
            try:
                os.remove(os.path.join(LOGS, f"{pid}-miri-shard{j}-{st or 'all'}.out"))
            except OSError:
                pass
    res = dict(tool="miri", build_s=round(build_s, 1), run_s=round(time.time() - t1, 1), scale=conf["scale"], shards=SHARDS, streams=conf["streams"] or "all", monitor=total, status=status, log=os.path.relpath(logf, HERE))
    if reason:
        res["reason"] = reason
    return res


def main():
    pid, seed = sys.argv[1], int(sys.argv[2])
    os.makedirs(LOGS, exist_ok=True)
    os.makedirs(os.path.join(LOGS, "cases"), exist_ok=True)
    ev_path = os.path.join(EVID, f"{pid}.json")
    results = []
    if os.environ.get("VERIF_NO_SANITIZERS"):
        results = [dict(tool="asan", status="skipped"), dict(tool="miri", status="skipped")]
    else:
        results.append(run_asan(pid, seed))
        results.append(run_miri(pid, seed))
    rc = 0
    for r in results:
        log(f"{pid} thorough sanitizer layer: {r['tool']} {r['status']}" + (f" ({r.get('reason')})" if r.get("reason") else "") + (f"; monitor judged {r['monitor']['clause_judgements']} clauses over {r['monitor']['evaluations']} executions under it" if r.get("monitor") else ""))
        if r["status"] == "violated":
            log(f"VIOLATION property={pid} replay={os.path.join(HERE, r['log'])}")
            log(f"  signature: sanitizer :: {r['tool']} report :: {pid} workload")
            rc = 1
        elif r["status"] == "inconclusive" and rc == 0:
            log(f"INCONCLUSIVE property={pid} reason={r['tool']}: {r.get('reason')}")
            rc = 3
    try:
        ev = json.load(open(ev_path))
        ev["coverage"]["sanitizers"] = results
        if rc == 1:
            ev["coverage"]["verdict"] = "violated"
        json.dump(ev, open(ev_path, "w"), indent=1)
    except Exception as e:  # evidence of the behavioural run stays as it is
        log(f"note: could not merge sanitizer results into {ev_path}: {e}")
    return rc


if __name__ == "__main__":
    sys.exit(main())
