#!/usr/bin/env python3
"""sanitize.py <Cxx> <seed> : the sanitizer layer of the thorough tier (DESIGN.md 1.1).

engeom itself has no `unsafe`; the five properties C02, C06, C13, C15, C20 are wrappers around
third-party code that has (kiddo k-d tree, parry QBVH / SIMD emulation, faer sparse LU).  For these
the same monitor binary is run again

  * under AddressSanitizer  (nightly, -Zsanitizer=address, target x86_64-unknown-linux-gnu) over a
    quick-size workload, and
  * under Miri              (cargo +nightly miri run) over a miniature workload (Miri is about four
    orders of magnitude slower), single-threaded, with the child-process probe disabled.

A sanitizer report voids what the monitor saw: it is reported as
    VIOLATION property=<id> replay=<log file>
and exit status 1.  A build or tool failure is INCONCLUSIVE (exit 3), never a violation.  The result
(what ran, how many judged executions the monitor made under each tool, reports found) is merged into
evidence/<id>.json under coverage.sanitizers.  Set VERIF_NO_SANITIZERS=1 to skip (recorded as skipped).
"""
import json, os, re, subprocess, sys, time

HERE = os.path.dirname(os.path.abspath(__file__))
HARNESS = os.path.join(HERE, "harness")
EVID = os.path.join(HERE, "evidence")
LOGS = os.path.join(HERE, "replays", "sanitizer")
KNOWN = os.path.join(HERE, "known_findings.json")
TRIPLE = "x86_64-unknown-linux-gnu"

# streams that can run under each tool: Miri cannot spawn the sacrificial child of the C13 section
# probe, and must not be asked to run the statistical / large-mesh streams
MIRI = {
    "C02": dict(scale=0.0004, streams=None),
    "C06": dict(scale=0.0004, streams=None),
    "C13": dict(scale=0.002, streams=["closed-meshes"]),
    "C15": dict(scale=0.0006, streams=["kdtree3", "kdtree2", "poisson", "hull"]),
    "C20": dict(scale=0.002, streams=["planar", "rejection"]),
}
ASAN = {
    "C02": dict(scale=0.5), "C06": dict(scale=0.5), "C13": dict(scale=0.25), "C15": dict(scale=0.5), "C20": dict(scale=0.5),
}


def log(m):
    print(m, flush=True)


def env_for(target_dir, extra=None):
    e = dict(os.environ)
    e.update({"CARGO_NET_OFFLINE": "true", "CARGO_TARGET_DIR": os.path.join(HERE, "target", target_dir), "CARGO_TERM_COLOR": "never"})
    if extra:
        e.update(extra)
    return e


def monitor_summary(text):
    """the summary line `Cxx quick seed=.. verdict=.. evaluations=N clause-judgements=M ...`"""
    m = re.search(r"verdict=(\w+) evaluations=(\d+) clause-judgements=(\d+)", text)
    return dict(verdict=m.group(1), evaluations=int(m.group(2)), clause_judgements=int(m.group(3))) if m else None


def run_asan(pid, seed):
    conf = ASAN[pid]
    env = env_for("asan", {"RUSTFLAGS": "-Zsanitizer=address -Cforce-frame-pointers=yes"})
    t0 = time.time()
    b = subprocess.run(["cargo", "+nightly", "build", "--release", "--offline", "--quiet", "--target", TRIPLE], cwd=HARNESS, env=env, stdout=subprocess.PIPE, stderr=subprocess.STDOUT, text=True)
    if b.returncode != 0:
        return dict(tool="asan", status="inconclusive", reason="ASan build failed: " + b.stdout[-600:])
    build_s = time.time() - t0
    exe = os.path.join(HERE, "target", "asan", TRIPLE, "release", "vmon")
    logf = os.path.join(LOGS, f"{pid}-asan-seed{seed}.log")
    env["ASAN_OPTIONS"] = "halt_on_error=1:abort_on_error=0:exitcode=66:detect_leaks=0:allocator_may_return_null=1"
    cmd = [exe, pid, "--tier", "quick", "--seed", str(seed), "--scale", str(conf["scale"]), "--known", KNOWN, "--evidence", os.path.join(LOGS, f"{pid}-asan-evidence.json"), "--replay-dir", os.path.join(LOGS, "cases")]
    t0 = time.time()
    try:
        p = subprocess.run(cmd, cwd=HERE, env=env, stdout=subprocess.PIPE, stderr=subprocess.STDOUT, text=True, timeout=3 * 3600)
    except subprocess.TimeoutExpired:
        return dict(tool="asan", status="inconclusive", reason="time limit")
    open(logf, "w").write(p.stdout)
    reports = len(re.findall(r"ERROR: AddressSanitizer", p.stdout))
    summ = monitor_summary(p.stdout)
    res = dict(tool="asan", build_s=round(build_s, 1), run_s=round(time.time() - t0, 1), scale=conf["scale"], exit=p.returncode, reports=reports, monitor=summ, log=os.path.relpath(logf, HERE))
    if reports or p.returncode == 66:
        res["status"] = "violated"
    elif p.returncode in (0, 1) and summ:
        # exit 1 = the behavioural monitor itself reported something under this build; that is the
        # monitor's business (it has already run without the sanitizer), not a sanitizer report
        res["status"] = "clean" if p.returncode == 0 else "clean (monitor verdict differs from the plain build: see log)"
    else:
        res["status"] = "inconclusive"
        res["reason"] = f"monitor ended with status {p.returncode} under ASan"
    return res


def run_miri(pid, seed):
    conf = MIRI[pid]
    env = env_for("miri", {"MIRIFLAGS": "-Zmiri-disable-isolation -Zmiri-ignore-leaks"})
    logf = os.path.join(LOGS, f"{pid}-miri-seed{seed}.log")
    out = []
    total = dict(evaluations=0, clause_judgements=0)
    t0 = time.time()
    streams = conf["streams"] or [None]
    status = "clean"
    reason = None
    for st in streams:
        cmd = ["cargo", "+nightly", "miri", "run", "--offline", "--quiet", "--bin", "vmon", "--", pid, "--tier", "quick", "--seed", str(seed), "--scale", str(conf["scale"]), "--threads", "1", "--known", KNOWN,
               "--evidence", os.path.join(LOGS, f"{pid}-miri-evidence.json"), "--replay-dir", os.path.join(LOGS, "cases")]
        if st:
            cmd += ["--stream", st]
        try:
            p = subprocess.run(cmd, cwd=HARNESS, env=env, stdout=subprocess.PIPE, stderr=subprocess.STDOUT, text=True, timeout=2 * 3600)
        except subprocess.TimeoutExpired:
            status, reason = "inconclusive", f"time limit (stream {st})"
            break
        out.append(f"### stream {st}\n" + p.stdout)
        ub = re.search(r"error: Undefined Behavior|error: unsupported operation|error: memory leaked|error: abnormal termination", p.stdout)
        s = monitor_summary(p.stdout)
        if s:
            total["evaluations"] += s["evaluations"]
            total["clause_judgements"] += s["clause_judgements"]
        if ub and "Undefined Behavior" in ub.group(0):
            status = "violated"
            break
        if ub or s is None:
            status, reason = "inconclusive", f"Miri could not run stream {st}: " + (ub.group(0) if ub else f"exit {p.returncode}, no summary line")
            break
    os.makedirs(LOGS, exist_ok=True)
    open(logf, "w").write("\n".join(out))
    res = dict(tool="miri", run_s=round(time.time() - t0, 1), scale=conf["scale"], streams=conf["streams"] or "all", monitor=total, status=status, log=os.path.relpath(logf, HERE))
    if reason:
        res["reason"] = reason
    return res


def main():
    pid, seed = sys.argv[1], int(sys.argv[2])
    os.makedirs(LOGS, exist_ok=True)
    os.makedirs(os.path.join(LOGS, "cases"), exist_ok=True)
    ev_path = os.path.join(EVID, f"{pid}.json")
    results = []
    if os.environ.get("VERIF_NO_SANITIZERS"):
        results = [dict(tool="asan", status="skipped"), dict(tool="miri", status="skipped")]
    else:
        results.append(run_asan(pid, seed))
        results.append(run_miri(pid, seed))
    rc = 0
    for r in results:
        log(f"{pid} thorough sanitizer layer: {r['tool']} {r['status']}" + (f" ({r.get('reason')})" if r.get("reason") else "") + (f"; monitor judged {r['monitor']['clause_judgements']} clauses over {r['monitor']['evaluations']} executions under it" if r.get("monitor") else ""))
        if r["status"] == "violated":
            log(f"VIOLATION property={pid} replay={os.path.join(HERE, r['log'])}")
            log(f"  signature: sanitizer :: {r['tool']} report :: {pid} workload")
            rc = 1
        elif r["status"] == "inconclusive" and rc == 0:
            log(f"INCONCLUSIVE property={pid} reason={r['tool']}: {r.get('reason')}")
            rc = 3
    try:
        ev = json.load(open(ev_path))
        ev["coverage"]["sanitizers"] = results
        if rc == 1:
            ev["coverage"]["verdict"] = "violated"
        json.dump(ev, open(ev_path, "w"), indent=1)
    except Exception as e:  # evidence of the behavioural run stays as it is
        log(f"note: could not merge sanitizer results into {ev_path}: {e}")
    return rc


if __name__ == "__main__":
    sys.exit(main())
