//! Input generators shared by the monitors.  Everything is driven by `Rng`, nothing by the clock.

use crate::rng::Rng;
use engeom::{Iso2, Iso3, Point2, Point3, Vector2, Vector3};
use serde_json::{json, Value};
use std::f64::consts::{PI, TAU};

pub type P2 = [f64; 2];
pub type P3 = [f64; 3];

pub const POLY2_FAMILIES: [&str; 9] = [
    "random-walk",
    "zigzag",
    "jittered-polygon",
    "collinear-runs",
    "decade-edges",
    "self-touching",
    "rectangle",
    "spiral",
    "parallel-strands",
];

/// A raw 2-D vertex sequence of about unit size (before scaling / offsetting).
pub fn poly2(r: &mut Rng, fam: usize, n: usize) -> Vec<P2> {
    let n = n.max(2);
    let mut v: Vec<P2> = Vec::with_capacity(n + 1);
    match fam % POLY2_FAMILIES.len() {
        0 => {
            // random walk with bounded turning
            let mut p = [0.0, 0.0];
            let mut a = r.range(0.0, TAU);
            let step = 1.0 / n as f64;
            for _ in 0..n {
                v.push(p);
                a += r.range(-1.2, 1.2);
                let s = step * r.range(0.3, 1.7);
                p = [p[0] + s * a.cos(), p[1] + s * a.sin()];
            }
        }
        1 => {
            let amp = r.range(0.05, 0.5);
            for i in 0..n {
                let x = i as f64 / (n - 1) as f64;
                let y = if i % 2 == 0 { 0.0 } else { amp * r.range(0.5, 1.0) };
                v.push([x, y]);
            }
        }
        2 => {
            // jittered regular polygon, not closed explicitly (closure decided by the caller)
            let ph = r.range(0.0, TAU);
            let ccw = r.bool();
            for i in 0..n {
                let t = ph + TAU * i as f64 / n as f64 * if ccw { 1.0 } else { -1.0 };
                let rad = 0.5 * (1.0 + r.range(-0.15, 0.15));
                v.push([rad * t.cos(), rad * t.sin()]);
            }
        }
        3 => {
            // runs of collinear vertices joined at corners
            let mut p = [0.0, 0.0];
            let mut a = r.range(0.0, TAU);
            let step = 1.0 / n as f64;
            let mut run = 0;
            for _ in 0..n {
                v.push(p);
                if run == 0 {
                    a += r.range(0.3, 2.5) * r.sign();
                    run = r.int(1, 5);
                } else {
                    run -= 1;
                }
                let s = step * r.range(0.5, 1.5);
                p = [p[0] + s * a.cos(), p[1] + s * a.sin()];
            }
        }
        4 => {
            // edge lengths spanning three decades
            let mut p = [0.0, 0.0];
            let mut a = r.range(0.0, TAU);
            for _ in 0..n {
                v.push(p);
                a += r.range(-1.0, 1.0);
                let s = r.log_range(1e-3, 1.0) / (n as f64).sqrt();
                p = [p[0] + s * a.cos(), p[1] + s * a.sin()];
            }
        }
        5 => {
            // revisits earlier vertices exactly (self-touching)
            let mut p = [0.0, 0.0];
            let mut a = r.range(0.0, TAU);
            let step = 1.0 / n as f64;
            for i in 0..n {
                if i > 3 && r.chance(0.15) {
                    let j = r.int(0, i - 2);
                    let q = v[j];
                    if (q[0] - v[i - 1][0]).hypot(q[1] - v[i - 1][1]) > 1e-3 {
                        p = q;
                    }
                }
                v.push(p);
                a += r.range(-1.5, 1.5);
                let s = step * r.range(0.5, 1.5);
                p = [p[0] + s * a.cos(), p[1] + s * a.sin()];
            }
        }
        6 => {
            // axis aligned rectangle outline, subdivided
            let w = r.range(0.2, 1.0);
            let h = r.range(0.2, 1.0);
            let per = 2.0 * (w + h);
            let m = n.max(4);
            let corners = [[0.0, 0.0], [w, 0.0], [w, h], [0.0, h], [0.0, 0.0]];
            let mut ls = vec![0.0];
            // always the corners, plus random subdivision points
            let mut extra: Vec<f64> = (0..m - 4).map(|_| r.range(0.0, per)).collect();
            extra.extend([w, w + h, 2.0 * w + h]);
            extra.sort_by(|a, b| a.partial_cmp(b).unwrap());
            ls.extend(extra);
            let cum = [0.0, w, w + h, 2.0 * w + h, per];
            for l in ls {
                let k = (0..4).rev().find(|&k| l >= cum[k]).unwrap();
                let f = (l - cum[k]) / (cum[k + 1] - cum[k]);
                v.push([
                    corners[k][0] + f * (corners[k + 1][0] - corners[k][0]),
                    corners[k][1] + f * (corners[k + 1][1] - corners[k][1]),
                ]);
            }
        }
        7 => {
            // nested spiral
            let turns = r.range(1.5, 5.0);
            for i in 0..n {
                let t = i as f64 / (n - 1) as f64;
                let a = TAU * turns * t;
                let rad = 0.05 + 0.45 * t;
                v.push([rad * a.cos(), rad * a.sin()]);
            }
        }
        _ => {
            // nearly coincident parallel strands: out and back with a tiny offset
            let gap = r.log_range(1e-6, 1e-2);
            let half = (n / 2).max(2);
            for i in 0..half {
                let x = i as f64 / (half - 1) as f64;
                v.push([x, 0.1 * (3.0 * x).sin()]);
            }
            for i in (0..half).rev() {
                let x = i as f64 / (half - 1) as f64;
                v.push([x + 0.3 / half as f64, 0.1 * (3.0 * x).sin() + gap]);
            }
        }
    }
    v
}

pub fn transform2(v: &[P2], scale: f64, rot: f64, off: P2) -> Vec<Point2> {
    let (s, c) = rot.sin_cos();
    v.iter()
        .map(|p| Point2::new(off[0] + scale * (c * p[0] - s * p[1]), off[1] + scale * (s * p[0] + c * p[1])))
        .collect()
}

/// Lift a planar sequence into 3-D with random out-of-plane components and pose.
pub fn lift3(r: &mut Rng, v: &[P2], scale: f64, off: P3, wobble: f64) -> Vec<Point3> {
    let iso = iso3(r, 0.0);
    v.iter()
        .map(|p| {
            let q = Point3::new(scale * p[0], scale * p[1], scale * wobble * r.range(-1.0, 1.0));
            let q = iso * q;
            Point3::new(q.x + off[0], q.y + off[1], q.z + off[2])
        })
        .collect()
}

pub fn iso2(r: &mut Rng, tmax: f64) -> Iso2 {
    let ang = match r.int(0, 9) {
        0 => 0.0,
        1 => PI / 2.0,
        2 => -PI / 2.0,
        3 => PI,
        _ => r.range(-PI, PI),
    };
    Iso2::new(Vector2::new(r.range(-tmax, tmax), r.range(-tmax, tmax)), ang)
}

pub fn unit3(r: &mut Rng) -> Vector3 {
    loop {
        let v = Vector3::new(r.normal(), r.normal(), r.normal());
        let n = v.norm();
        if n > 1e-3 {
            return v / n;
        }
    }
}

pub fn unit2(r: &mut Rng) -> Vector2 {
    let a = r.range(0.0, TAU);
    Vector2::new(a.cos(), a.sin())
}

pub fn iso3(r: &mut Rng, tmax: f64) -> Iso3 {
    let ang = match r.int(0, 9) {
        0 => 0.0,
        1 => PI / 2.0,
        2 => PI,
        _ => r.range(-PI, PI),
    };
    let axis = match r.int(0, 7) {
        0 => Vector3::x(),
        1 => Vector3::y(),
        2 => Vector3::z(),
        _ => unit3(r),
    };
    Iso3::new(Vector3::new(r.range(-tmax, tmax), r.range(-tmax, tmax), r.range(-tmax, tmax)), axis * ang)
}

pub fn small_iso3(r: &mut Rng, tmax: f64, angmax: f64) -> Iso3 {
    let axis = unit3(r);
    Iso3::new(
        Vector3::new(r.range(-tmax, tmax), r.range(-tmax, tmax), r.range(-tmax, tmax)),
        axis * r.range(-angmax, angmax),
    )
}

// ---------------------------------------------------------------------------------------------
// JSON helpers (floats are written with serde_json's shortest round-trip representation)

pub fn j2(v: &[Point2]) -> Value {
    Value::Array(v.iter().map(|p| json!([p.x, p.y])).collect())
}
pub fn j3(v: &[Point3]) -> Value {
    Value::Array(v.iter().map(|p| json!([p.x, p.y, p.z])).collect())
}
pub fn jfaces(f: &[[u32; 3]]) -> Value {
    Value::Array(f.iter().map(|t| json!([t[0], t[1], t[2]])).collect())
}
pub fn jiso2(t: &Iso2) -> Value {
    json!({"t": [t.translation.vector.x, t.translation.vector.y], "angle": t.rotation.angle()})
}
pub fn jiso3(t: &Iso3) -> Value {
    let q = t.rotation.quaternion();
    json!({"t": [t.translation.vector.x, t.translation.vector.y, t.translation.vector.z], "q_ijkw": [q.i, q.j, q.k, q.w]})
}

// ---------------------------------------------------------------------------------------------
// Curve cases

pub struct CurveCase2 {
    pub fam: &'static str,
    pub pts: Vec<Point2>,
    pub tol: f64,
    pub force_closed: bool,
    /// "open", "exact-closed", "tol-closed", "force-closed"
    pub closure: &'static str,
    pub scale: f64,
}

impl CurveCase2 {
    pub fn json(&self) -> Value {
        json!({"family": self.fam, "closure": self.closure, "tol": self.tol, "force_closed": self.force_closed,
               "scale": self.scale, "points": j2(&self.pts)})
    }
}

/// A polyline case: family, size, scale (total extent 1e-3..1e3), offset, tolerance, closure mode.
pub fn curve_case2(r: &mut Rng, max_n: usize) -> CurveCase2 {
    let fam = r.int(0, POLY2_FAMILIES.len() - 1);
    let n = if r.chance(0.15) { r.int(2, 4) } else { (r.log_range(3.0, max_n as f64)) as usize };
    let raw = poly2(r, fam, n);
    let scale = if r.chance(0.5) { r.log_range(1e-3, 1e3) } else { r.log_range(0.2, 5.0) };
    let off = if r.chance(0.3) {
        [r.range(-1e3, 1e3), r.range(-1e3, 1e3)]
    } else {
        [r.range(-2.0, 2.0) * scale, r.range(-2.0, 2.0) * scale]
    };
    let mut pts = transform2(&raw, scale, r.range(0.0, TAU), off);
    let tol = scale * *r.pick(&[1e-9, 1e-6, 1e-4]);
    let mode = r.int(0, 9);
    let (closure, force_closed) = match mode {
        0..=3 => ("open", false),
        4 | 5 => {
            let f = pts[0];
            pts.push(f);
            ("exact-closed", false)
        }
        6 => {
            let f = pts[0];
            pts.push(Point2::new(f.x + 0.3 * tol, f.y - 0.3 * tol));
            ("tol-closed", false)
        }
        _ => ("force-closed", true),
    };
    CurveCase2 { fam: POLY2_FAMILIES[fam], pts, tol, force_closed, closure, scale }
}

pub struct CurveCase3 {
    pub fam: &'static str,
    pub pts: Vec<Point3>,
    pub tol: f64,
    pub scale: f64,
}

impl CurveCase3 {
    pub fn json(&self) -> Value {
        json!({"family": self.fam, "tol": self.tol, "scale": self.scale, "points": j3(&self.pts)})
    }
}

pub fn curve_case3(r: &mut Rng, max_n: usize) -> CurveCase3 {
    let fam = r.int(0, POLY2_FAMILIES.len() - 1);
    let n = if r.chance(0.15) { r.int(2, 4) } else { (r.log_range(3.0, max_n as f64)) as usize };
    let raw = poly2(r, fam, n);
    let scale = if r.chance(0.5) { r.log_range(1e-3, 1e3) } else { r.log_range(0.2, 5.0) };
    let off = if r.chance(0.3) {
        [r.range(-1e3, 1e3), r.range(-1e3, 1e3), r.range(-1e3, 1e3)]
    } else {
        [0.0, 0.0, 0.0]
    };
    let wob = *r.pick(&[0.0, 0.01, 0.3]);
    let mut pts = lift3(r, &raw, scale, off, wob);
    if r.chance(0.2) {
        let f = pts[0];
        pts.push(f);
    }
    let tol = scale * *r.pick(&[1e-9, 1e-6, 1e-4]);
    CurveCase3 { fam: POLY2_FAMILIES[fam], pts, tol, scale }
}

// ---------------------------------------------------------------------------------------------
// Meshes (raw vertex / face lists, built by the harness — independent of engeom's generators)

#[derive(Clone)]
pub struct RawMesh {
    pub name: &'static str,
    pub v: Vec<Point3>,
    pub f: Vec<[u32; 3]>,
    pub closed: bool,
    pub convex: bool,
}

impl RawMesh {
    pub fn json(&self) -> Value {
        json!({"kind": self.name, "vertices": j3(&self.v), "faces": jfaces(&self.f)})
    }
    pub fn transformed(&self, t: &Iso3) -> RawMesh {
        let mut m = self.clone();
        for p in &mut m.v {
            *p = t * *p;
        }
        m
    }
    pub fn scaled(&self, s: f64) -> RawMesh {
        let mut m = self.clone();
        for p in &mut m.v {
            *p = Point3::new(p.x * s, p.y * s, p.z * s);
        }
        m
    }
    pub fn extent(&self) -> f64 {
        let mut lo = [f64::INFINITY; 3];
        let mut hi = [f64::NEG_INFINITY; 3];
        for p in &self.v {
            for k in 0..3 {
                lo[k] = lo[k].min(p[k]);
                hi[k] = hi[k].max(p[k]);
            }
        }
        ((hi[0] - lo[0]).powi(2) + (hi[1] - lo[1]).powi(2) + (hi[2] - lo[2]).powi(2)).sqrt()
    }
    pub fn offset_norm(&self) -> f64 {
        self.v.iter().map(|p| p.coords.norm()).fold(0.0, f64::max)
    }
    pub fn area(&self) -> f64 {
        self.f
            .iter()
            .map(|t| {
                let a = self.v[t[0] as usize];
                let b = self.v[t[1] as usize];
                let c = self.v[t[2] as usize];
                0.5 * (b - a).cross(&(c - a)).norm()
            })
            .sum()
    }
    pub fn to_mesh(&self, solid: bool) -> engeom::Mesh {
        engeom::Mesh::new(self.v.clone(), self.f.clone(), solid)
    }
}

/// Axis aligned box centred at the origin, outward winding, 12 faces.
pub fn mesh_box(lx: f64, ly: f64, lz: f64) -> RawMesh {
    let (x, y, z) = (lx / 2.0, ly / 2.0, lz / 2.0);
    let v = vec![
        Point3::new(-x, -y, -z),
        Point3::new(x, -y, -z),
        Point3::new(x, y, -z),
        Point3::new(-x, y, -z),
        Point3::new(-x, -y, z),
        Point3::new(x, -y, z),
        Point3::new(x, y, z),
        Point3::new(-x, y, z),
    ];
    let f = vec![
        [0, 2, 1],
        [0, 3, 2], // bottom (z-) outward = -z
        [4, 5, 6],
        [4, 6, 7], // top
        [0, 1, 5],
        [0, 5, 4], // y-
        [2, 3, 7],
        [2, 7, 6], // y+
        [1, 2, 6],
        [1, 6, 5], // x+
        [3, 0, 4],
        [3, 4, 7], // x-
    ];
    RawMesh { name: "box", v, f, closed: true, convex: true }
}

/// Prism over a convex polygon with `n` sides (capped; outward winding).
pub fn mesh_prism(n: usize, rad: f64, h: f64, capped: bool) -> RawMesh {
    let mut v = Vec::new();
    for k in 0..2 {
        for i in 0..n {
            let a = TAU * i as f64 / n as f64;
            v.push(Point3::new(rad * a.cos(), rad * a.sin(), if k == 0 { -h / 2.0 } else { h / 2.0 }));
        }
    }
    let mut f = Vec::new();
    let n32 = n as u32;
    for i in 0..n32 {
        let j = (i + 1) % n32;
        f.push([i, j, n32 + j]);
        f.push([i, n32 + j, n32 + i]);
    }
    if capped {
        let cb = v.len() as u32;
        v.push(Point3::new(0.0, 0.0, -h / 2.0));
        let ct = v.len() as u32;
        v.push(Point3::new(0.0, 0.0, h / 2.0));
        for i in 0..n32 {
            let j = (i + 1) % n32;
            f.push([cb, j, i]);
            f.push([ct, n32 + i, n32 + j]);
        }
    }
    RawMesh { name: if capped { "prism" } else { "tube" }, v, f, closed: capped, convex: capped }
}

pub fn mesh_icosphere(sub: usize, rad: f64) -> RawMesh {
    let t = (1.0 + 5f64.sqrt()) / 2.0;
    let mut v: Vec<Vector3> = vec![
        Vector3::new(-1.0, t, 0.0),
        Vector3::new(1.0, t, 0.0),
        Vector3::new(-1.0, -t, 0.0),
        Vector3::new(1.0, -t, 0.0),
        Vector3::new(0.0, -1.0, t),
        Vector3::new(0.0, 1.0, t),
        Vector3::new(0.0, -1.0, -t),
        Vector3::new(0.0, 1.0, -t),
        Vector3::new(t, 0.0, -1.0),
        Vector3::new(t, 0.0, 1.0),
        Vector3::new(-t, 0.0, -1.0),
        Vector3::new(-t, 0.0, 1.0),
    ];
    let mut f: Vec<[u32; 3]> = vec![
        [0, 11, 5],
        [0, 5, 1],
        [0, 1, 7],
        [0, 7, 10],
        [0, 10, 11],
        [1, 5, 9],
        [5, 11, 4],
        [11, 10, 2],
        [10, 7, 6],
        [7, 1, 8],
        [3, 9, 4],
        [3, 4, 2],
        [3, 2, 6],
        [3, 6, 8],
        [3, 8, 9],
        [4, 9, 5],
        [2, 4, 11],
        [6, 2, 10],
        [8, 6, 7],
        [9, 8, 1],
    ];
    for p in &mut v {
        *p = p.normalize();
    }
    for _ in 0..sub {
        let mut cache = std::collections::HashMap::new();
        let mut nf = Vec::new();
        let mut mid = |a: u32, b: u32, v: &mut Vec<Vector3>| -> u32 {
            let k = (a.min(b), a.max(b));
            *cache.entry(k).or_insert_with(|| {
                let m = ((v[a as usize] + v[b as usize]) * 0.5).normalize();
                v.push(m);
                (v.len() - 1) as u32
            })
        };
        for t in &f {
            let a = mid(t[0], t[1], &mut v);
            let b = mid(t[1], t[2], &mut v);
            let c = mid(t[2], t[0], &mut v);
            nf.push([t[0], a, c]);
            nf.push([t[1], b, a]);
            nf.push([t[2], c, b]);
            nf.push([a, b, c]);
        }
        f = nf;
    }
    RawMesh { name: "icosphere", v: v.iter().map(|p| Point3::from(p * rad)).collect(), f, closed: true, convex: true }
}

pub fn mesh_torus(nu: usize, nv: usize, rmaj: f64, rmin: f64) -> RawMesh {
    let mut v = Vec::new();
    for i in 0..nu {
        let a = TAU * i as f64 / nu as f64;
        for j in 0..nv {
            let b = TAU * j as f64 / nv as f64;
            let rr = rmaj + rmin * b.cos();
            v.push(Point3::new(rr * a.cos(), rr * a.sin(), rmin * b.sin()));
        }
    }
    let mut f = Vec::new();
    let id = |i: usize, j: usize| ((i % nu) * nv + (j % nv)) as u32;
    for i in 0..nu {
        for j in 0..nv {
            f.push([id(i, j), id(i + 1, j), id(i + 1, j + 1)]);
            f.push([id(i, j), id(i + 1, j + 1), id(i, j + 1)]);
        }
    }
    RawMesh { name: "torus", v, f, closed: true, convex: false }
}

/// Height field over an nx × ny grid (open surface, normals +z-ish), random diagonal choice.
pub fn mesh_heightfield(r: &mut Rng, nx: usize, ny: usize, sx: f64, sy: f64, amp: f64, jitter: f64) -> RawMesh {
    let mut v = Vec::new();
    let (fx, fy, px, py) = (r.range(1.0, 4.0), r.range(1.0, 4.0), r.range(0.0, TAU), r.range(0.0, TAU));
    for j in 0..=ny {
        for i in 0..=nx {
            let mut x = i as f64 / nx as f64;
            let mut y = j as f64 / ny as f64;
            if i > 0 && i < nx {
                x += jitter * r.range(-0.4, 0.4) / nx as f64;
            }
            if j > 0 && j < ny {
                y += jitter * r.range(-0.4, 0.4) / ny as f64;
            }
            let z = amp * ((fx * x + px).sin() * (fy * y + py).cos());
            v.push(Point3::new(sx * (x - 0.5), sy * (y - 0.5), z));
        }
    }
    let id = |i: usize, j: usize| (j * (nx + 1) + i) as u32;
    let mut f = Vec::new();
    for j in 0..ny {
        for i in 0..nx {
            if r.bool() {
                f.push([id(i, j), id(i + 1, j), id(i + 1, j + 1)]);
                f.push([id(i, j), id(i + 1, j + 1), id(i, j + 1)]);
            } else {
                f.push([id(i, j), id(i + 1, j), id(i, j + 1)]);
                f.push([id(i + 1, j), id(i + 1, j + 1), id(i, j + 1)]);
            }
        }
    }
    RawMesh { name: "heightfield", v, f, closed: false, convex: false }
}

/// A random mesh from the standard families, about `size` across, in a random pose when `pose`.
pub fn random_mesh(r: &mut Rng, max_faces: usize, pose: bool) -> RawMesh {
    let size = if r.chance(0.4) { r.log_range(1e-2, 1e2) } else { r.range(0.5, 3.0) };
    let m = match r.int(0, 7) {
        0 => mesh_box(r.range(0.2, 1.0), r.range(0.2, 1.0), r.range(0.2, 1.0)),
        1 => {
            let n = r.int(3, ((max_faces / 4).max(3)).min(64));
            mesh_prism(n, 0.5, r.range(0.2, 1.5), true)
        }
        2 => {
            let n = r.int(3, ((max_faces / 2).max(3)).min(64));
            mesh_prism(n, 0.5, r.range(0.2, 1.5), false)
        }
        3 => {
            let sub = if max_faces >= 5120 { r.int(0, 4) } else if max_faces >= 1280 { r.int(0, 3) } else if max_faces >= 320 { r.int(0, 2) } else if max_faces >= 80 { r.int(0, 1) } else { 0 };
            mesh_icosphere(sub, 0.5)
        }
        4 => {
            let k = ((max_faces / 2) as f64).sqrt().max(3.0) as usize;
            let nu = r.int(3, k.max(3));
            let nv = r.int(3, k.max(3));
            mesh_torus(nu, nv, 0.4, r.range(0.05, 0.2))
        }
        5 => {
            // long thin strip
            let nx = r.int(2, (max_faces / 2).max(2).min(400));
            let (w, amp) = (r.log_range(1e-3, 0.1), r.range(0.0, 0.05));
            mesh_heightfield(r, nx, 1, 1.0, w, amp, 0.5)
        }
        _ => {
            let k = ((max_faces / 2) as f64).sqrt().max(2.0) as usize;
            let nx = r.int(1, k.max(1));
            let ny = r.int(1, k.max(1));
            let (amp, sy, jit) = (r.range(0.0, 0.3), r.range(0.3, 1.0), r.range(0.0, 1.0));
            mesh_heightfield(r, nx, ny, 1.0, sy, amp, jit)
        }
    };
    let m = m.scaled(size);
    if pose {
        let tmax = if r.chance(0.2) { 1e3 } else { 2.0 * size };
        let t = iso3(r, tmax);
        m.transformed(&t)
    } else {
        m
    }
}
