//! Deterministic PRNG (SplitMix64 seeding xoshiro256**).  No external crates; every case of every
//! monitor derives its own stream from (seed, property, case index) so that a case can be replayed
//! alone.

#[derive(Clone)]
pub struct Rng {
    s: [u64; 4],
}

fn splitmix(x: &mut u64) -> u64 {
    *x = x.wrapping_add(0x9E3779B97F4A7C15);
    let mut z = *x;
    z = (z ^ (z >> 30)).wrapping_mul(0xBF58476D1CE4E5B9);
    z = (z ^ (z >> 27)).wrapping_mul(0x94D049BB133111EB);
    z ^ (z >> 31)
}

pub fn hash_str(s: &str) -> u64 {
    // FNV-1a
    let mut h: u64 = 0xcbf29ce484222325;
    for b in s.bytes() {
        h ^= b as u64;
        h = h.wrapping_mul(0x100000001b3);
    }
    h
}

impl Rng {
    pub fn new(seed: u64) -> Self {
        let mut x = seed;
        let s = [
            splitmix(&mut x),
            splitmix(&mut x),
            splitmix(&mut x),
            splitmix(&mut x),
        ];
        Rng { s }
    }

    pub fn for_case(seed: u64, prop: &str, stream: u64, index: u64) -> Self {
        let mut x = seed ^ hash_str(prop).rotate_left(17);
        let a = splitmix(&mut x);
        let mut y = a ^ stream.wrapping_mul(0xD6E8FEB86659FD93);
        let b = splitmix(&mut y);
        let mut z = b ^ index.wrapping_mul(0xA0761D6478BD642F);
        Rng::new(splitmix(&mut z))
    }

    pub fn u64(&mut self) -> u64 {
        let r = self.s[1].wrapping_mul(5).rotate_left(7).wrapping_mul(9);
        let t = self.s[1] << 17;
        self.s[2] ^= self.s[0];
        self.s[3] ^= self.s[1];
        self.s[1] ^= self.s[2];
        self.s[0] ^= self.s[3];
        self.s[2] ^= t;
        self.s[3] = self.s[3].rotate_left(45);
        r
    }

    /// uniform in [0,1)
    pub fn f(&mut self) -> f64 {
        (self.u64() >> 11) as f64 * (1.0 / (1u64 << 53) as f64)
    }

    pub fn range(&mut self, a: f64, b: f64) -> f64 {
        a + (b - a) * self.f()
    }

    /// log-uniform in [a,b], a,b > 0
    pub fn log_range(&mut self, a: f64, b: f64) -> f64 {
        (self.range(a.ln(), b.ln())).exp()
    }

    /// integer in [a, b] inclusive
    pub fn int(&mut self, a: usize, b: usize) -> usize {
        debug_assert!(b >= a);
        a + (self.u64() % ((b - a) as u64 + 1)) as usize
    }

    pub fn iint(&mut self, a: i64, b: i64) -> i64 {
        a + (self.u64() % ((b - a) as u64 + 1)) as i64
    }

    pub fn bool(&mut self) -> bool {
        self.u64() & 1 == 1
    }

    pub fn chance(&mut self, p: f64) -> bool {
        self.f() < p
    }

    pub fn sign(&mut self) -> f64 {
        if self.bool() {
            1.0
        } else {
            -1.0
        }
    }

    pub fn normal(&mut self) -> f64 {
        // Box-Muller
        let u1 = (1.0 - self.f()).max(1e-300);
        let u2 = self.f();
        (-2.0 * u1.ln()).sqrt() * (std::f64::consts::TAU * u2).cos()
    }

    pub fn pick<'a, T>(&mut self, v: &'a [T]) -> &'a T {
        &v[self.int(0, v.len() - 1)]
    }

    pub fn shuffle<T>(&mut self, v: &mut [T]) {
        for i in (1..v.len()).rev() {
            let j = self.int(0, i);
            v.swap(i, j);
        }
    }

    pub fn perm(&mut self, n: usize) -> Vec<usize> {
        let mut p: Vec<usize> = (0..n).collect();
        self.shuffle(&mut p);
        p
    }
}

/// next representable f64 above x (finite x)
pub fn next_up(x: f64) -> f64 {
    if x.is_nan() || x == f64::INFINITY {
        return x;
    }
    if x == 0.0 {
        return f64::from_bits(1);
    }
    let b = x.to_bits();
    if x > 0.0 {
        f64::from_bits(b + 1)
    } else {
        f64::from_bits(b - 1)
    }
}

pub fn next_down(x: f64) -> f64 {
    -next_up(-x)
}
