//! vmon — runtime monitors for engeom.  See /verif/DESIGN.md.
//!
//! vmon <Cxx> [--tier quick|thorough] [--seed N] [--evidence FILE] [--known FILE]
//!            [--replay-dir DIR] [--threads N] [--replay FILE] [--scale F] [--list]
//!
//! exit 0 = held on everything observed, 1 = violation (a `VIOLATION property=.. replay=..` line
//! per distinct new signature), 3 = inconclusive / harness error.

mod gen;
mod oracle;
mod prop;
mod report;
mod rng;

use report::{Ctx, Report};
use serde_json::{json, Value};
use std::sync::atomic::{AtomicBool, AtomicU64, Ordering};
use std::sync::{Arc, Mutex};
use std::time::{Duration, Instant};

pub struct Stream {
    pub name: &'static str,
    pub quick: u64,
    pub thorough: u64,
    pub run: fn(&mut Ctx),
}

pub struct Spec {
    pub id: &'static str,
    pub rule: &'static str,
    pub assumptions: &'static [&'static str],
    pub streams: Vec<Stream>,
    /// clause-name prefixes that must have at least `min_eval` evaluations, else inconclusive
    pub required: Vec<(&'static str, u64)>,
    /// set when a stream enumerates a finite space completely in the thorough tier
    pub exhaustive_note: Option<&'static str>,
}

struct Args {
    id: String,
    thorough: bool,
    seed: u64,
    evidence: Option<String>,
    known: Option<String>,
    replay_dir: String,
    threads: usize,
    replay: Option<String>,
    scale: f64,
    only_stream: Option<String>,
    case_timeout_s: u64,
    probe_case: Option<(String, u64)>,
}

fn parse_args() -> Args {
    let mut a = Args {
        id: String::new(),
        thorough: false,
        seed: 1,
        evidence: None,
        known: None,
        replay_dir: "/verif/replays".into(),
        threads: std::thread::available_parallelism().map(|n| n.get()).unwrap_or(8).min(16),
        replay: None,
        scale: 1.0,
        only_stream: None,
        case_timeout_s: 600,
        probe_case: None,
    };
    let v: Vec<String> = std::env::args().skip(1).collect();
    let mut i = 0;
    while i < v.len() {
        let need = |i: usize| -> String {
            v.get(i + 1).cloned().unwrap_or_else(|| {
                eprintln!("missing value for {}", v[i]);
                std::process::exit(3)
            })
        };
        match v[i].as_str() {
            "--tier" => {
                a.thorough = need(i) == "thorough";
                i += 1;
            }
            "--seed" => {
                a.seed = need(i).parse().unwrap_or(1);
                i += 1;
            }
            "--evidence" => {
                a.evidence = Some(need(i));
                i += 1;
            }
            "--known" => {
                a.known = Some(need(i));
                i += 1;
            }
            "--replay-dir" => {
                a.replay_dir = need(i);
                i += 1;
            }
            "--threads" => {
                a.threads = need(i).parse().unwrap_or(8);
                i += 1;
            }
            "--replay" => {
                a.replay = Some(need(i));
                i += 1;
            }
            "--scale" => {
                a.scale = need(i).parse().unwrap_or(1.0);
                i += 1;
            }
            "--stream" => {
                a.only_stream = Some(need(i));
                i += 1;
            }
            "--probe-case" => {
                let name = need(i);
                let idx = v.get(i + 2).and_then(|x| x.parse().ok()).unwrap_or(0);
                a.probe_case = Some((name, idx));
                i += 2;
            }
            "--case-timeout" => {
                a.case_timeout_s = need(i).parse().unwrap_or(600);
                i += 1;
            }
            "--list" => {
                for s in prop::all() {
                    println!("{}", s.id);
                }
                std::process::exit(0);
            }
            s if !s.starts_with("--") && a.id.is_empty() => a.id = s.to_string(),
            s => {
                eprintln!("unknown argument {s}");
                std::process::exit(3);
            }
        }
        i += 1;
    }
    a
}

fn main() {
    let args = parse_args();
    report::install_panic_hook();
    let spec = match prop::all().into_iter().find(|s| s.id == args.id) {
        Some(s) => s,
        None => {
            eprintln!("INCONCLUSIVE property={} reason=no-such-monitor", args.id);
            std::process::exit(3);
        }
    };

    if let Some(path) = &args.replay {
        std::process::exit(replay(&spec, &args, path));
    }
    if let Some((name, idx)) = &args.probe_case {
        // sacrificial child: perform the case's dangerous library calls and exit
        let si = spec.streams.iter().position(|s| s.name == name).unwrap_or(0);
        let mut rep = Report::default();
        run_case(&spec, si, *idx, args.seed, args.thorough, false, true, &mut rep);
        std::process::exit(0);
    }

    let t0 = Instant::now();
    // work list: (stream index, case index)
    let mut work: Vec<(usize, u64)> = Vec::new();
    for (si, s) in spec.streams.iter().enumerate() {
        if let Some(o) = &args.only_stream {
            if s.name != o {
                continue;
            }
        }
        let n = if args.thorough { s.thorough } else { s.quick };
        let n = ((n as f64) * args.scale).ceil() as u64;
        for i in 0..n {
            work.push((si, i));
        }
    }
    // interleave streams so that all threads stay busy until the end
    let mut r = rng::Rng::new(args.seed ^ 0x5EED);
    r.shuffle(&mut work);
    let work = Arc::new(work);
    let next = Arc::new(AtomicU64::new(0));
    let spec = Arc::new(spec);
    let total = Arc::new(Mutex::new(Report::default()));
    let running: Arc<Vec<Mutex<Option<(usize, u64, Instant)>>>> =
        Arc::new((0..args.threads).map(|_| Mutex::new(None)).collect());
    let done = Arc::new(AtomicBool::new(false));

    // watchdog: a case that runs longer than the per-case limit makes the run inconclusive
    {
        let running = running.clone();
        let done = done.clone();
        let spec = spec.clone();
        let limit = Duration::from_secs(args.case_timeout_s);
        let id = args.id.clone();
        std::thread::spawn(move || loop {
            std::thread::sleep(Duration::from_millis(500));
            if done.load(Ordering::SeqCst) {
                break;
            }
            for slot in running.iter() {
                if let Some((si, idx, t)) = *slot.lock().unwrap() {
                    if t.elapsed() > limit {
                        println!(
                            "INCONCLUSIVE property={} reason=watchdog case stream={} index={} ran > {} s",
                            id,
                            spec.streams[si].name,
                            idx,
                            limit.as_secs()
                        );
                        std::process::exit(3);
                    }
                }
            }
        });
    }

    let mut handles = Vec::new();
    for t in 0..args.threads {
        let work = work.clone();
        let next = next.clone();
        let spec = spec.clone();
        let total = total.clone();
        let running = running.clone();
        let seed = args.seed;
        let thorough = args.thorough;
        let h = std::thread::Builder::new()
            .stack_size(64 << 20)
            .spawn(move || {
                let mut rep = Report::default();
                loop {
                    let k = next.fetch_add(1, Ordering::SeqCst) as usize;
                    if k >= work.len() {
                        break;
                    }
                    let (si, idx) = work[k];
                    *running[t].lock().unwrap() = Some((si, idx, Instant::now()));
                    run_case(&spec, si, idx, seed, thorough, false, false, &mut rep);
                    *running[t].lock().unwrap() = None;
                }
                total.lock().unwrap().merge(rep);
            })
            .unwrap();
        handles.push(h);
    }
    let mut harness_error = false;
    for h in handles {
        if h.join().is_err() {
            harness_error = true;
        }
    }
    done.store(true, Ordering::SeqCst);
    let mut rep = std::mem::take(&mut *total.lock().unwrap());
    if harness_error {
        rep.inconclusive.push("a monitor thread panicked outside of a guarded library call (harness error)".into());
    }
    let wall = t0.elapsed().as_secs_f64();
    std::process::exit(finish(&spec, &args, rep, wall));
}

fn run_case(spec: &Spec, si: usize, idx: u64, seed: u64, thorough: bool, verbose: bool, probe: bool, rep: &mut Report) {
    let s = &spec.streams[si];
    let mut ctx = Ctx {
        rng: rng::Rng::for_case(seed, spec.id, rng::hash_str(s.name), idx),
        rep,
        thorough,
        tiny: cfg!(miri) || std::env::var_os("VMON_TINY").is_some(),
        stream: si as u64,
        index: idx,
        verbose,
        case: Value::Null,
        family: s.name.to_string(),
        seed,
        prop: spec.id,
        stream_name: s.name,
        probe,
    };
    // A panic that escapes here comes from harness/oracle code (library calls are guarded
    // individually); it is a harness error => inconclusive, never a violation.
    let r = std::panic::catch_unwind(std::panic::AssertUnwindSafe(|| (s.run)(&mut ctx)));
    if r.is_err() {
        let why = format!("harness panic in stream {} index {} (not inside a guarded library call)", s.name, idx);
        ctx.rep.inconclusive.push(why);
    }
    engeom::verif_hooks::set_fuel(u64::MAX);
    engeom::verif_hooks::set_logging(false);
}

fn load_known(args: &Args) -> Vec<Value> {
    let mut out = Vec::new();
    if let Some(p) = &args.known {
        if let Ok(s) = std::fs::read_to_string(p) {
            if let Ok(v) = serde_json::from_str::<Value>(&s) {
                if let Some(a) = v.get("findings").and_then(|f| f.as_array()) {
                    for f in a {
                        if f.get("property").and_then(|x| x.as_str()) == Some(&args.id)
                            && f.get("status").and_then(|x| x.as_str()) == Some("known")
                        {
                            out.push(f.clone());
                        }
                    }
                }
            } else {
                eprintln!("warning: cannot parse {p}");
            }
        }
    }
    out
}

fn finish(spec: &Spec, args: &Args, mut rep: Report, wall: f64) -> i32 {
    let known = load_known(args);
    let tier = if args.thorough { "thorough" } else { "quick" };

    // required coverage
    for (prefix, min) in &spec.required {
        let n: u64 = rep.clauses.iter().filter(|(k, _)| k.contains(prefix)).map(|(_, v)| v.evaluated).sum();
        if n < *min && args.only_stream.is_none() && args.scale >= 1.0 {
            rep.inconclusive.push(format!("clause '{prefix}' judged only {n} times (< {min})"));
        }
    }
    // skipped fraction rule
    for (k, v) in &rep.clauses {
        let tot = v.evaluated + v.skipped_guard;
        if tot > 50 && v.skipped_guard as f64 > 0.5 * tot as f64 {
            rep.inconclusive.push(format!("clause '{k}': {} of {} cases fell in a guard band", v.skipped_guard, tot));
        }
    }
    if rep.evaluations == 0 {
        rep.inconclusive.push("no evaluations".into());
    }

    let mut new_viol = Vec::new();
    let mut known_hit = Vec::new();
    for (sig, v) in &rep.violations {
        if let Some(k) = known.iter().find(|k| k.get("signature").and_then(|s| s.as_str()) == Some(sig.as_str())) {
            known_hit.push((sig.clone(), k.get("what").and_then(|w| w.as_str()).unwrap_or("").to_string(), v.count));
        } else {
            new_viol.push(v.clone());
        }
    }

    let _ = std::fs::create_dir_all(format!("{}/{}", args.replay_dir, spec.id));
    let mut viol_json = Vec::new();
    for v in &new_viol {
        let h = rng::hash_str(&v.signature);
        let path = format!("{}/{}/{:016x}.json", args.replay_dir, spec.id, h);
        let doc = json!({
            "property": spec.id, "signature": v.signature, "detail": v.detail, "tier": tier,
            "seed": args.seed, "stream": spec.streams[v.stream as usize].name, "index": v.index,
            "occurrences": v.count, "case": v.case,
        });
        let _ = std::fs::write(&path, serde_json::to_string_pretty(&doc).unwrap());
        println!("VIOLATION property={} replay={}", spec.id, path);
        println!("  signature: {}", v.signature);
        println!("  detail: {}  (x{})", v.detail, v.count);
        viol_json.push(json!({"signature": v.signature, "detail": v.detail, "occurrences": v.count, "replay": path}));
    }
    for (sig, what, n) in &known_hit {
        println!("KNOWN-FINDING: property={} {} — {} (x{})", spec.id, sig, what, n);
    }
    for why in rep.inconclusive.iter().take(10) {
        println!("INCONCLUSIVE property={} reason={}", spec.id, why);
    }

    let verdict = if !new_viol.is_empty() {
        "violated"
    } else if !rep.inconclusive.is_empty() {
        "inconclusive"
    } else {
        "held"
    };

    let mut samples: Vec<Value> = Vec::new();
    for (_, v) in &rep.samples {
        for s in v {
            if samples.len() < 40 {
                samples.push(s.clone());
            }
        }
    }
    let clauses: serde_json::Map<String, Value> = rep
        .clauses
        .iter()
        .map(|(k, v)| (k.clone(), json!({"evaluated": v.evaluated, "skipped_guard": v.skipped_guard, "failed": v.failed})))
        .collect();
    let maxes: serde_json::Map<String, Value> = rep.maxes.iter().map(|(k, v)| (k.clone(), json!(v))).collect();
    let ev = json!({
        "property_id": spec.id,
        "tier": tier,
        "seed": args.seed,
        "level": "exploration",
        "coverage": {
            "evaluations": rep.evaluations,
            "distinct_nontrivial": rep.fingerprints.len(),
            "rule": spec.rule,
            "samples": samples,
            "exhaustive": false,
            "exhaustive_subspace": spec.exhaustive_note,
            "families": rep.families,
            "clauses": clauses,
            "observations": rep.obs,
            "max_observed": maxes,
            "verdict": verdict,
            "violations": viol_json,
            "known_findings_hit": known_hit.iter().map(|(s, w, n)| json!({"signature": s, "what": w, "occurrences": n})).collect::<Vec<_>>(),
            "inconclusive_reasons": rep.inconclusive,
            "threads": args.threads,
        },
        "assumptions": spec.assumptions,
        "wall_s": wall,
        "violations": new_viol.len(),
    });
    if let Some(p) = &args.evidence {
        if let Err(e) = std::fs::write(p, serde_json::to_string_pretty(&ev).unwrap()) {
            eprintln!("cannot write evidence {p}: {e}");
            return 3;
        }
    }
    let judged: u64 = rep.clauses.values().map(|c| c.evaluated).sum();
    println!(
        "{} {} seed={} verdict={} evaluations={} clause-judgements={} distinct={} known-hit={} wall={:.1}s",
        spec.id,
        tier,
        args.seed,
        verdict,
        rep.evaluations,
        judged,
        rep.fingerprints.len(),
        known_hit.len(),
        wall
    );
    match verdict {
        "held" => 0,
        "violated" => 1,
        _ => 3,
    }
}

fn replay(spec: &Spec, args: &Args, path: &str) -> i32 {
    let doc: Value = match std::fs::read_to_string(path).ok().and_then(|s| serde_json::from_str(&s).ok()) {
        Some(v) => v,
        None => {
            eprintln!("cannot read replay file {path}");
            return 3;
        }
    };
    let stream = doc["stream"].as_str().unwrap_or("");
    let index = doc["index"].as_u64().unwrap_or(0);
    let seed = doc["seed"].as_u64().unwrap_or(args.seed);
    let thorough = doc["tier"].as_str() == Some("thorough");
    let si = match spec.streams.iter().position(|s| s.name == stream) {
        Some(i) => i,
        None => {
            eprintln!("no stream {stream}");
            return 3;
        }
    };
    println!("replaying {} stream={} index={} seed={} tier={}", spec.id, stream, index, seed, if thorough { "thorough" } else { "quick" });
    let mut rep = Report::default();
    run_case(spec, si, index, seed, thorough, true, false, &mut rep);
    let want = doc["signature"].as_str().unwrap_or("");
    let mut hit = false;
    for (sig, v) in &rep.violations {
        println!("VIOLATION property={} replay={}", spec.id, path);
        println!("  signature: {sig}\n  detail: {}", v.detail);
        if sig == want {
            hit = true;
        }
    }
    if rep.violations.is_empty() {
        println!("replay: no violation on this tree");
        0
    } else {
        if !hit {
            println!("replay: violations differ from the recorded signature {want}");
        }
        1
    }
}
