//! Verdict bookkeeping shared by all monitors: per-clause counters, violation signatures, coverage
//! fingerprints, samples, observations.  One `Report` per worker thread, merged at the end.

use crate::rng::Rng;
use serde_json::{json, Value};
use std::collections::{BTreeMap, HashSet};
use std::hash::{Hash, Hasher};

#[derive(Default, Clone, Debug)]
pub struct ClauseStat {
    pub evaluated: u64,
    pub skipped_guard: u64,
    pub failed: u64,
}

#[derive(Clone, Debug)]
pub struct Violation {
    pub signature: String,
    pub detail: String,
    pub case: Value,
    pub stream: u64,
    pub index: u64,
    pub count: u64,
}

#[derive(Default)]
pub struct Report {
    pub clauses: BTreeMap<String, ClauseStat>,
    pub families: BTreeMap<String, u64>,
    pub obs: BTreeMap<String, u64>,
    pub maxes: BTreeMap<String, f64>,
    pub violations: BTreeMap<String, Violation>,
    pub fingerprints: HashSet<u64>,
    pub evaluations: u64,
    pub samples: BTreeMap<String, Vec<Value>>,
    pub inconclusive: Vec<String>,
}

impl Report {
    pub fn merge(&mut self, o: Report) {
        for (k, v) in o.clauses {
            let e = self.clauses.entry(k).or_default();
            e.evaluated += v.evaluated;
            e.skipped_guard += v.skipped_guard;
            e.failed += v.failed;
        }
        for (k, v) in o.families {
            *self.families.entry(k).or_default() += v;
        }
        for (k, v) in o.obs {
            *self.obs.entry(k).or_default() += v;
        }
        for (k, v) in o.maxes {
            let e = self.maxes.entry(k).or_insert(f64::NEG_INFINITY);
            if v > *e {
                *e = v;
            }
        }
        for (k, v) in o.violations {
            match self.violations.get_mut(&k) {
                Some(e) => {
                    e.count += v.count;
                    // keep the witness with the smallest (stream, index) so that output is stable
                    if (v.stream, v.index) < (e.stream, e.index) {
                        let c = e.count;
                        *e = v;
                        e.count = c;
                    }
                }
                None => {
                    self.violations.insert(k, v);
                }
            }
        }
        self.fingerprints.extend(o.fingerprints);
        self.evaluations += o.evaluations;
        for (k, v) in o.samples {
            let e = self.samples.entry(k).or_default();
            for s in v {
                if e.len() < 2 {
                    e.push(s);
                }
            }
        }
        self.inconclusive.extend(o.inconclusive);
    }
}

/// Per-case context handed to a monitor.
pub struct Ctx<'a> {
    pub rng: Rng,
    pub rep: &'a mut Report,
    pub thorough: bool,
    /// miniature cases: set when the monitor is compiled for the Miri interpreter (about four orders
    /// of magnitude slower), so that every case still finishes in seconds
    pub tiny: bool,
    pub stream: u64,
    pub index: u64,
    pub verbose: bool,
    /// lazily built description of the current case, attached to violations
    pub case: Value,
    pub family: String,
    pub seed: u64,
    pub prop: &'static str,
    pub stream_name: &'static str,
    /// true inside a sacrificial child process: perform the dangerous library calls only
    pub probe: bool,
}

/// outcome of running the current case's dangerous calls in a sacrificial child process
#[derive(Debug, PartialEq)]
pub enum Probe {
    Survived,
    /// the child aborted (allocation failure), crashed, or was stopped by the time limit
    Died(String),
}

impl<'a> Ctx<'a> {
    /// Re-run the current case in a child process with an address-space limit and a time limit,
    /// in probe mode (the run function performs the library calls that may not terminate and
    /// returns).  Used where a non-terminating call lives in unhooked third-party code and would
    /// otherwise take the whole monitor down.
    pub fn probe_in_child(&self, mem_kb: u64, timeout_s: u64) -> Probe {
        if self.probe || cfg!(miri) {
            // (the interpreter cannot start processes; its miniature cases are not the ones that hang)
            return Probe::Survived;
        }
        let exe = match std::env::current_exe() {
            Ok(e) => e,
            Err(e) => return Probe::Died(format!("cannot locate the harness executable: {e}")),
        };
        // Under AddressSanitizer the address space cannot be limited (the shadow memory needs
        // terabytes of it): the resident set is limited through the sanitizer's own option instead.
        let limit = match std::env::var("ASAN_OPTIONS") {
            Ok(o) => format!("export ASAN_OPTIONS='{o}:hard_rss_limit_mb={}'", mem_kb / 1024 + 512),
            Err(_) => format!("ulimit -v {mem_kb}"),
        };
        let cmd = format!(
            "{limit}; exec timeout -s KILL {timeout_s} '{}' {} --tier {} --seed {} --probe-case {} {} >/dev/null 2>&1",
            exe.display(),
            self.prop,
            if self.thorough { "thorough" } else { "quick" },
            self.seed,
            self.stream_name,
            self.index
        );
        match std::process::Command::new("sh").arg("-c").arg(&cmd).status() {
            Ok(st) if st.success() => Probe::Survived,
            Ok(st) => Probe::Died(match st.code() {
                Some(137) | None => format!("killed after {timeout_s} s or by a signal (did not terminate)"),
                Some(134) => "aborted (memory allocation failure: unbounded growth)".to_string(),
                Some(66) if std::env::var("ASAN_OPTIONS").is_ok() => "stopped by the sanitizer's resident-set limit (unbounded growth)".to_string(),
                Some(c) => format!("exit status {c}"),
            }),
            Err(e) => Probe::Died(format!("cannot spawn: {e}")),
        }
    }

    /// Declare the family of the current case (counted once per case).
    pub fn family(&mut self, name: &str) {
        self.family = name.to_string();
        *self.rep.families.entry(name.to_string()).or_default() += 1;
    }

    /// Attach the (serialisable) inputs of the current case; the first two of each family are kept
    /// as evidence samples.
    pub fn set_case(&mut self, case: Value) {
        let s = self.rep.samples.entry(self.family.clone()).or_default();
        if s.len() < 2 {
            s.push(json!({"family": self.family, "stream": self.stream, "index": self.index, "case": truncate(&case)}));
        }
        self.case = case;
    }

    /// Count one judged library call / execution.
    pub fn eval(&mut self) {
        self.rep.evaluations += 1;
    }
    pub fn evals(&mut self, n: u64) {
        self.rep.evaluations += n;
    }

    /// Record a fingerprint of a non-trivial case (distinctness is measured through the set).
    pub fn distinct<H: Hash>(&mut self, h: &H) {
        let mut s = std::collections::hash_map::DefaultHasher::new();
        self.family.hash(&mut s);
        h.hash(&mut s);
        self.rep.fingerprints.insert(s.finish());
    }

    pub fn note(&mut self, key: &str) {
        *self.rep.obs.entry(key.to_string()).or_default() += 1;
    }
    pub fn note_n(&mut self, key: &str, n: u64) {
        *self.rep.obs.entry(key.to_string()).or_default() += n;
    }
    pub fn maxf(&mut self, key: &str, v: f64) {
        if v.is_nan() {
            return;
        }
        let e = self.rep.maxes.entry(key.to_string()).or_insert(f64::NEG_INFINITY);
        if v > *e {
            *e = v;
        }
    }

    pub fn skip(&mut self, clause: &str) {
        self.rep.clauses.entry(clause.to_string()).or_default().skipped_guard += 1;
    }

    /// Judge one clause.  `api :: clause :: class` is the violation signature.
    pub fn check(&mut self, api: &str, clause: &str, class: &str, ok: bool, detail: impl FnOnce() -> String) -> bool {
        let st = self.rep.clauses.entry(format!("{api} :: {clause}")).or_default();
        st.evaluated += 1;
        if !ok {
            st.failed += 1;
            let sig = format!("{api} :: {clause} :: {class}");
            let d = detail();
            if self.verbose {
                println!("  FAIL {sig}: {d}");
            }
            match self.rep.violations.get_mut(&sig) {
                Some(v) => v.count += 1,
                None => {
                    self.rep.violations.insert(
                        sig.clone(),
                        Violation {
                            signature: sig,
                            detail: d,
                            case: self.case.clone(),
                            stream: self.stream,
                            index: self.index,
                            count: 1,
                        },
                    );
                }
            }
        }
        ok
    }

    /// A clause comparing two floats with an absolute tolerance; records the max ratio err/tol.
    pub fn close(&mut self, api: &str, clause: &str, class: &str, got: f64, want: f64, tol: f64) -> bool {
        let err = (got - want).abs();
        let ok = err <= tol && got.is_finite();
        if want.is_finite() && got.is_finite() {
            self.maxf(&format!("err/tol {api} :: {clause}"), err / tol);
        }
        self.check(api, clause, class, ok, || format!("got {got:e} want {want:e} |err| {err:e} tol {tol:e}"))
    }

    pub fn inconclusive(&mut self, why: &str) {
        self.rep.inconclusive.push(why.to_string());
    }
}

fn truncate(v: &Value) -> Value {
    // keep evidence samples readable: long arrays are cut to the first 12 entries
    match v {
        Value::Array(a) if a.len() > 12 => {
            let mut b: Vec<Value> = a.iter().take(12).map(truncate).collect();
            b.push(json!(format!("... {} more", a.len() - 12)));
            Value::Array(b)
        }
        Value::Array(a) => Value::Array(a.iter().map(truncate).collect()),
        Value::Object(o) => Value::Object(o.iter().map(|(k, v)| (k.clone(), truncate(v))).collect()),
        _ => v.clone(),
    }
}

// ---------------------------------------------------------------------------------------------
// Panic capture

use std::cell::RefCell;
use std::panic::{catch_unwind, AssertUnwindSafe};

thread_local! {
    static LAST_PANIC: RefCell<Option<(String, String)>> = const { RefCell::new(None) };
}

#[derive(Debug, Clone)]
pub struct Caught {
    pub msg: String,
    pub loc: String,
    pub fuel_site: Option<String>,
}

impl Caught {
    /// short, stable description used inside violation signatures
    pub fn sig(&self) -> String {
        if let Some(s) = &self.fuel_site {
            format!("step-bound@{s}")
        } else {
            format!("panic@{}", self.loc)
        }
    }
}

pub fn install_panic_hook() {
    std::panic::set_hook(Box::new(|info| {
        let loc = info
            .location()
            .map(|l| {
                let f = l.file();
                // keep the path relative to the crate so signatures do not depend on where /repo is
                let f = f.rsplit_once("/src/").map(|x| format!("src/{}", x.1)).unwrap_or(f.to_string());
                format!("{}:{}", f, l.line())
            })
            .unwrap_or_default();
        let msg = if let Some(s) = info.payload().downcast_ref::<&str>() {
            s.to_string()
        } else if let Some(s) = info.payload().downcast_ref::<String>() {
            s.clone()
        } else if let Some(f) = info.payload().downcast_ref::<engeom::verif_hooks::FuelExhausted>() {
            format!("FUEL {} {}", f.site, f.used)
        } else {
            "<non-string panic>".to_string()
        };
        LAST_PANIC.with(|p| *p.borrow_mut() = Some((msg, loc)));
    }));
}

/// Run one call into the library, catching panics (including the step-bound panic of the fuel
/// hook).  Oracle code must stay outside of the closure.
pub fn guard<T>(f: impl FnOnce() -> T) -> Result<T, Caught> {
    LAST_PANIC.with(|p| *p.borrow_mut() = None);
    match catch_unwind(AssertUnwindSafe(f)) {
        Ok(v) => Ok(v),
        Err(payload) => {
            let (msg, loc) = LAST_PANIC.with(|p| p.borrow_mut().take()).unwrap_or_default();
            let fuel_site = payload
                .downcast_ref::<engeom::verif_hooks::FuelExhausted>()
                .map(|f| f.site.to_string());
            engeom::verif_hooks::set_fuel(u64::MAX);
            Err(Caught { msg, loc, fuel_site })
        }
    }
}

/// Run a call with a step bound on the hooked loops; returns the steps used.
pub fn guard_fuel<T>(limit: u64, f: impl FnOnce() -> T) -> (Result<T, Caught>, u64) {
    engeom::verif_hooks::set_fuel(limit);
    let mut used = 0;
    let r = guard(|| {
        let v = f();
        used = engeom::verif_hooks::fuel_used();
        v
    });
    if let Err(c) = &r {
        if c.fuel_site.is_some() {
            used = limit + 1;
        }
    }
    engeom::verif_hooks::set_fuel(u64::MAX);
    (r, used)
}
