//! C11 — Circle, arc and tangent constructions satisfy their defining constraints.
//!
//! Oracle: the defining constraints themselves (on-both-objects, perpendicularity, side
//! conditions), a configuration classifier with exactly constructed tangent cases, and an
//! independently computed bounding box.

use crate::gen;
use crate::oracle::{cross2, U};
use crate::report::{guard, Ctx};
use crate::{Spec, Stream};
use engeom::common::Intersection;
use engeom::geom2::{HasBounds2, Segment2};
use engeom::{Arc2, Circle2, Curve2, Point2, Vector2};
use serde_json::json;
use std::f64::consts::{PI, TAU};

pub fn spec() -> Spec {
    Spec {
        id: "C11",
        rule: "circle pairs in every relative position (separate, externally tangent, crossing, internally tangent, nested, concentric, equal radii, identical) with exactly constructed tangent cases and the others >= 1e-6 r from tangency; \
               external points at d/r from 1+1e-6 to 1e3; lines/segments at every offset class (miss, tangent, secant, through centre, end point inside); point triples in general position; arcs with any centre, start angle and signed sweep in [-2pi,2pi] incl. 0, +-2pi and multiples of pi/2. \
               Non-trivial = a configuration with at least one returned point/segment; distinct = hash of the input bits.",
        assumptions: &[
            "on-object tolerance 1e-9*scale (scale = radii + centre offsets); tangency cases are constructed on dyadic coordinates so that they are exact",
            "cases closer than 1e-6*r to a tangency that was not constructed exactly are not generated",
            "bounding boxes compared with an independent box (end points + axis extremes whose angle lies in the sweep) within 1e-9*(r+|c|)",
        ],
        streams: vec![
            Stream { name: "circle-circle", quick: 150_000, thorough: 5_000_000, run: run_cc },
            Stream { name: "line-circle", quick: 100_000, thorough: 4_000_000, run: run_lc },
            Stream { name: "tangents", quick: 150_000, thorough: 5_000_000, run: run_tan },
            Stream { name: "arcs", quick: 80_000, thorough: 3_000_000, run: run_arc },
        ],
        required: vec![
            ("Circle2::intersections_with :: count matches the configuration", 50_000),
            ("Circle2::intersections_with :: points on both circles", 20_000),
            ("Circle2 intersection with Segment2 :: line: count", 20_000),
            ("Curve2 intersection with Circle2", 2000),
            ("Circle2::tangent_points_to :: tangent line perpendicular to the radius", 20_000),
            ("Circle2::outer_tangents_to :: touches both circles tangentially", 20_000),
            ("Arc2::three_points", 10_000),
            ("Arc2 aabb", 10_000),
            ("Circle2 aabb", 1000),
        ],
        exhaustive_note: None,
    }
}

/// dyadic value (multiple of 1/8) in [lo,hi]
fn dy(c: &mut Ctx, lo: f64, hi: f64) -> f64 {
    let a = (lo * 8.0).ceil() as i64;
    let b = (hi * 8.0).floor() as i64;
    c.rng.iint(a, b.max(a)) as f64 / 8.0
}

fn finite2(p: &Point2) -> bool {
    p.x.is_finite() && p.y.is_finite()
}

/// a pair of circles and its configuration name; tangent cases are exact
fn circle_pair(c: &mut Ctx) -> (Circle2, Circle2, &'static str) {
    let kind = c.rng.int(0, 8);
    // exact cases live on dyadic numbers, axis aligned
    match kind {
        0 | 1 | 2 => {
            // tangent (external / internal) and concentric, exact
            let r0 = dy(c, 0.25, 8.0);
            let mut r1 = dy(c, 0.25, 8.0);
            let cx = dy(c, -50.0, 50.0);
            let cy = dy(c, -50.0, 50.0);
            let horizontal = c.rng.bool();
            let sgn = c.rng.sign();
            let (d, name) = match kind {
                0 => (r0 + r1, "externally-tangent"),
                1 => {
                    if r0 == r1 {
                        r1 += 0.5;
                    }
                    ((r0 - r1).abs(), "internally-tangent")
                }
                _ => (0.0, if r0 == r1 { "identical" } else { "concentric" }),
            };
            let (ox, oy) = if horizontal { (cx + sgn * d, cy) } else { (cx, cy + sgn * d) };
            (Circle2::new(cx, cy, r0), Circle2::new(ox, oy, r1), name)
        }
        _ => {
            let scale = c.rng.log_range(1e-2, 1e2);
            let r0 = scale * c.rng.range(0.2, 1.0);
            let r1 = if c.rng.chance(0.15) { r0 } else { scale * c.rng.range(0.2, 1.0) };
            let offm = *c.rng.pick(&[0.0, 1.0, 100.0]);
            let ctr = Point2::new(c.rng.range(-offm, offm), c.rng.range(-offm, offm));
            let dir = gen::unit2(&mut c.rng);
            let (lo, hi) = ((r0 - r1).abs(), r0 + r1);
            let g = 1e-6 * r0.max(r1);
            let (d, name) = match kind {
                3 => (hi + g + scale * c.rng.log_range(1e-6, 10.0), "separate"),
                4 | 5 | 6 => {
                    if hi - lo <= 4.0 * g {
                        (hi + 1.0 * scale, "separate")
                    } else {
                        // crossing, including very close to either tangency
                        let t = match c.rng.int(0, 3) {
                            0 => lo + g + (hi - lo - 2.0 * g) * c.rng.log_range(1e-9, 1.0).min(1.0) * 0.5,
                            1 => hi - g - (hi - lo - 2.0 * g) * c.rng.log_range(1e-9, 1.0).min(1.0) * 0.5,
                            _ => c.rng.range(lo + g, hi - g),
                        };
                        (t, if r0 == r1 { "crossing-equal-radii" } else { "crossing" })
                    }
                }
                _ => {
                    if lo <= 2.0 * g + 2e-10 {
                        (hi + 1.0 * scale, "separate")
                    } else {
                        // nested, not concentric (the library treats d < 1e-10 as concentric)
                        (c.rng.range(2e-10_f64.max(1e-9 * lo), lo - g), "nested")
                    }
                }
            };
            (Circle2::from_point(ctr, r0), Circle2::from_point(ctr + dir * d, r1), name)
        }
    }
}

fn run_cc(c: &mut Ctx) {
    let (c0, c1, name) = circle_pair(c);
    c.family(&format!("circle-circle/{name}"));
    c.set_case(json!({"c0": [c0.x(), c0.y(), c0.r()], "c1": [c1.x(), c1.y(), c1.r()], "configuration": name}));
    let api = "Circle2::intersections_with";
    let scale = c0.r() + c1.r() + c0.center.coords.norm() + c1.center.coords.norm();
    let r = guard(|| c0.intersections_with(&c1));
    c.eval();
    let pts = match r {
        Ok(p) => p,
        Err(e) => {
            c.check(api, "no-panic", name, false, || format!("{} {}", e.sig(), e.msg));
            return;
        }
    };
    let want = match name {
        "separate" | "nested" | "concentric" | "identical" => 0,
        "externally-tangent" | "internally-tangent" => 1,
        _ => 2,
    };
    c.check(api, "no non-finite coordinate", name, pts.iter().all(finite2), || format!("{pts:?}"));
    c.check(api, "count matches the configuration", name, pts.len() == want, || format!("{} points for a {name} pair (expected {want}): {pts:?}", pts.len()));
    for p in &pts {
        if !finite2(p) {
            continue;
        }
        let e0 = ((p - c0.center).norm() - c0.r()).abs();
        let e1 = ((p - c1.center).norm() - c1.r()).abs();
        // near a tangency the points are ill-conditioned: error ~ u r^2 / h
        c.close(api, "points on both circles", name, e0.max(e1), 0.0, 1e-9 * scale);
    }
    if pts.len() == 2 && pts.iter().all(finite2) {
        c.check(api, "two distinct points", name, (pts[0] - pts[1]).norm() > 0.0, || "identical points".into());
    }
    // symmetric call finds the same set
    if let Ok(q) = guard(|| c1.intersections_with(&c0)) {
        c.eval();
        c.check(api, "symmetric count", name, q.len() == pts.len(), || format!("{} vs {}", q.len(), pts.len()));
    }
    // interval on c0 covered by c1
    let r = guard(|| c0.intersection_interval(c1));
    c.eval();
    match r {
        Err(e) => {
            c.check("Circle2::intersection_interval", "no-panic", name, false, || format!("{} {}", e.sig(), e.msg));
        }
        Ok(iv) => {
            c.check("Circle2::intersection_interval", "Some iff the circles intersect", name, iv.is_some() == (want > 0), || format!("{:?} for {name}", iv.is_some()));
            if let (Some(iv), 2) = (iv, pts.len()) {
                if pts.iter().all(finite2) && name.starts_with("crossing") {
                    let to_other = c0.angle_of_point(&c1.center);
                    c.check("Circle2::intersection_interval", "contains the direction to the other centre", name, iv.contains(to_other), || "direction to the other centre not inside".into());
                    // its two ends are the intersection angles
                    let e0 = iv.start();
                    let e1 = iv.start() + iv.angle();
                    let angs: Vec<f64> = pts.iter().map(|p| c0.angle_of_point(p)).collect();
                    let near = |a: f64, b: f64| ((a - b).sin().abs() < 1e-7) && ((a - b).cos() > 0.0);
                    let ok = (near(e0, angs[0]) && near(e1, angs[1])) || (near(e0, angs[1]) && near(e1, angs[0]));
                    c.check("Circle2::intersection_interval", "ends at the two intersection angles", name, ok, || format!("ends {e0} {e1} vs {angs:?}"));
                }
            }
        }
    }
    if !pts.is_empty() {
        c.distinct(&(c0.x().to_bits(), c1.x().to_bits(), c1.r().to_bits()));
    }
}

fn run_lc(c: &mut Ctx) {
    // ---- line / segment against a circle
    let exact = c.rng.chance(0.3);
    let (circle, a, b, name): (Circle2, Point2, Point2, &str) = if exact {
        // exact tangent / through-centre on dyadic, axis-aligned geometry
        let r = dy(c, 0.25, 8.0);
        let cx = dy(c, -20.0, 20.0);
        let cy = dy(c, -20.0, 20.0);
        let through = c.rng.bool();
        let off = if through { 0.0 } else { r * c.rng.sign() };
        let (x0, x1) = (cx - dy(c, 0.5, 30.0), cx + dy(c, 0.5, 30.0));
        if c.rng.bool() {
            (Circle2::new(cx, cy, r), Point2::new(x0, cy + off), Point2::new(x1, cy + off), if through { "through-centre" } else { "tangent" })
        } else {
            (Circle2::new(cx, cy, r), Point2::new(cx + off, x0 - cx + cy), Point2::new(cx + off, x1 - cx + cy), if through { "through-centre" } else { "tangent" })
        }
    } else {
        let scale = c.rng.log_range(1e-2, 1e2);
        let r = scale * c.rng.range(0.2, 1.0);
        let offm = *c.rng.pick(&[0.0, 1.0, 100.0]);
        let ctr = Point2::new(c.rng.range(-offm, offm), c.rng.range(-offm, offm));
        let dir = gen::unit2(&mut c.rng);
        let nrm = Vector2::new(-dir.y, dir.x);
        let kind = c.rng.int(0, 9);
        // a tangent in general position: the centre distance is r up to a few rounding errors, far
        // inside the library's absolute tangency tolerance of 1e-10
        let (dd, name) = if kind < 5 {
            (r * c.rng.range(0.0, 1.0 - 1e-6), "secant")
        } else if kind < 8 {
            (r * (1.0 + 1e-6 + c.rng.log_range(1e-6, 5.0)), "miss")
        } else {
            (r, "tangent")
        };
        let foot = ctr + nrm * (dd * c.rng.sign());
        let (ta, tb) = (c.rng.range(-3.0, 3.0) * r, c.rng.range(-3.0, 3.0) * r);
        (Circle2::from_point(ctr, r), foot + dir * ta, foot + dir * tb, name)
    };
    if (a - b).norm() < 1e-6 * circle.r() {
        return;
    }
    // the carrier line of a tangent segment has to be defined to better than the library's 1e-10
    // tangency band: two points a fraction of a radius apart far from the origin do not define it
    if name == "tangent" && (a - b).norm() < 0.1 * circle.r() {
        return;
    }
    c.family(&format!("line-circle/{name}"));
    c.set_case(json!({"circle": [circle.x(), circle.y(), circle.r()], "a": [a.x, a.y], "b": [b.x, b.y], "configuration": name}));
    let scale = circle.r() + circle.center.coords.norm() + a.coords.norm() + b.coords.norm();
    let Ok(seg) = Segment2::try_new(a, b) else { return };
    // The line-circle primitive is private; it is observed through the public segment
    // intersection.  A segment long enough to contain every crossing of its carrier line plays
    // the role of the line.
    let api = "Circle2 intersection with Segment2";
    let dir = (b - a).normalize();
    let reach = 4.0 * circle.r() + (circle.center - a).norm();
    let long = Segment2::try_new(a - dir * reach, a + dir * reach).unwrap();
    let r = guard(|| circle.intersection(&long));
    c.eval();
    let lp = match r {
        Ok(t) => t,
        Err(e) => {
            c.check(api, "no-panic", name, false, || format!("{} {}", e.sig(), e.msg));
            return;
        }
    };
    let want = match name {
        "miss" => 0,
        "tangent" => 1,
        _ => 2,
    };
    c.check(api, "line: count matches the configuration", name, lp.len() == want, || format!("{} points for {name}: {lp:?}", lp.len()));
    for p in &lp {
        c.check(api, "finite", name, finite2(p), || format!("{p:?}"));
        let e = ((p - circle.center).norm() - circle.r()).abs().max(crate::oracle::dist_seg2(&long.a, &long.b, p));
        c.close(api, "line: points on circle and line", name, e, 0.0, 1e-9 * scale);
    }
    // the finite segment keeps exactly the crossings whose parameter lies in [0,1]
    let r = guard(|| circle.intersection(&seg));
    c.eval();
    if let Ok(ps) = r {
        let len = (b - a).norm();
        let ts: Vec<f64> = lp.iter().map(|p| (p - a).dot(&dir) / len).collect();
        let inside = ts.iter().filter(|t| (0.0..=1.0).contains(*t)).count();
        let borderline = ts.iter().any(|t| t.abs() < 1e-7 || (t - 1.0).abs() < 1e-7);
        if !borderline {
            c.check(api, "segment: exactly the crossings with parameter in [0,1]", name, ps.len() == inside, || format!("{} points, {} line crossings inside the segment (parameters {ts:?})", ps.len(), inside));
        } else {
            c.skip("Circle2 intersection with Segment2 :: segment: exactly the crossings with parameter in [0,1]");
        }
        for p in &ps {
            let e = ((p - circle.center).norm() - circle.r()).abs().max(crate::oracle::dist_seg2(&a, &b, p));
            c.close(api, "segment: points on circle and segment", name, e, 0.0, 1e-9 * scale);
        }
    }
    let ts = lp;

    // ---- curve against a circle (every robustly crossing edge contributes a point)
    if c.rng.chance(0.15) {
        let case = gen::curve_case2(&mut c.rng, 60);
        if let Ok(Ok(curve)) = guard(|| Curve2::from_points(&case.pts, case.tol, case.force_closed)) {
            let v = curve.points().to_vec();
            let k = c.rng.int(0, v.len() - 1);
            let ext = crate::oracle::PolyModel2::new(&v).extent();
            let circ = Circle2::from_point(v[k] + gen::unit2(&mut c.rng) * (ext * c.rng.range(0.0, 0.3)), ext * c.rng.range(0.05, 0.6));
            let r = guard(|| curve.intersection(&circ));
            c.eval();
            match r {
                Err(e) => {
                    c.check("Curve2 intersection with Circle2", "no-panic", "curve", false, || format!("{} {}", e.sig(), e.msg));
                }
                Ok(ps) => {
                    let sc = ext + circ.center.coords.norm() + circ.r();
                    let m = crate::oracle::PolyModel2::new(&v);
                    for p in &ps {
                        let e = ((p - circ.center).norm() - circ.r()).abs().max(m.dist(p));
                        c.close("Curve2 intersection with Circle2", "points on both", "curve", e, 0.0, 1e-9 * sc);
                    }
                    // edges with one end well inside and one well outside
                    let margin = 1e-6 * sc;
                    for i in 0..v.len() - 1 {
                        let d0 = (v[i] - circ.center).norm() - circ.r();
                        let d1 = (v[i + 1] - circ.center).norm() - circ.r();
                        if d0 * d1 < 0.0 && d0.abs() > margin && d1.abs() > margin {
                            let hit = ps.iter().any(|p| crate::oracle::dist_seg2(&v[i], &v[i + 1], p) <= 1e-9 * sc);
                            c.check("Curve2 intersection with Circle2", "every robustly crossing edge contributes a point", "curve", hit, || format!("edge {i} crosses the circle but no returned point lies on it"));
                        }
                    }
                }
            }
        }
    }
    if !ts.is_empty() {
        c.distinct(&(circle.x().to_bits(), a.x.to_bits(), b.y.to_bits()));
    }
}

fn run_tan(c: &mut Ctx) {
    // ---- tangent points from an external point
    {
        let scale = c.rng.log_range(1e-2, 1e2);
        let r = scale * c.rng.range(0.2, 1.0);
        let offm = *c.rng.pick(&[0.0, 1.0, 100.0]);
        let ctr = Point2::new(c.rng.range(-offm, offm), c.rng.range(-offm, offm));
        let circle = Circle2::from_point(ctr, r);
        let ratio = match c.rng.int(0, 5) {
            0 => c.rng.range(0.0, 1.0),           // inside
            1 => 1.0 + c.rng.log_range(1e-6, 1e-2), // just outside
            2 => std::f64::consts::SQRT_2,
            _ => 1.0 + c.rng.log_range(1e-3, 1e3),
        };
        let p = ctr + gen::unit2(&mut c.rng) * (r * ratio);
        let d = (p - ctr).norm();
        let class = if ratio <= 1.0 { "inside" } else if ratio < 1.01 { "d/r<1.01" } else if ratio < 3.0 { "d/r<3" } else { "d/r>=3" };
        c.family(&format!("tangent-points/{class}"));
        c.set_case(json!({"circle": [circle.x(), circle.y(), circle.r()], "point": [p.x, p.y], "d_over_r": ratio}));
        let api = "Circle2::tangent_points_to";
        let rr = guard(|| circle.tangent_points_to(&p));
        c.eval();
        match rr {
            Err(e) => {
                c.check(api, "no-panic", class, false, || format!("{} {}", e.sig(), e.msg));
            }
            Ok(res) => {
                if (d - r).abs() > 1e-12 * r {
                    c.check(api, "None iff the point is not outside", class, res.is_none() == (d <= r), || format!("d={d:e} r={r:e} -> {}", res.is_some()));
                }
                if let Some((t0, t1)) = res {
                    let sc = r + ctr.coords.norm() + d;
                    for (k, t) in [t0, t1].iter().enumerate() {
                        c.check(api, "finite", class, finite2(t), || format!("{t:?}"));
                        c.close(api, "tangent point on the circle", class, ((t - ctr).norm() - r).abs(), 0.0, 1e-9 * sc);
                        let dot = (t - ctr).dot(&(p - t));
                        c.close(api, "tangent line perpendicular to the radius", class, dot, 0.0, 1e-9 * d * r + 1e3 * U * sc * sc);
                        // first point left of the line p -> centre, second right
                        let side = cross2(&(ctr - p), &(t - p));
                        let want_left = k == 0;
                        if side.abs() > 1e-9 * d * r {
                            c.check(api, "documented left/right order", class, (side > 0.0) == want_left, || format!("point {k} is on the {} side", if side > 0.0 { "left" } else { "right" }));
                        }
                    }
                    c.distinct(&(ctr.x.to_bits(), p.x.to_bits(), r.to_bits()));
                }
            }
        }
    }
    // ---- outer tangents of two circles
    let (c0, c1, name) = circle_pair(c);
    c.family(&format!("outer-tangents/{name}"));
    c.set_case(json!({"c0": [c0.x(), c0.y(), c0.r()], "c1": [c1.x(), c1.y(), c1.r()], "configuration": name}));
    let api = "Circle2::outer_tangents_to";
    let r = guard(|| c0.outer_tangents_to(&c1));
    c.eval();
    let res = match r {
        Ok(x) => x,
        Err(e) => {
            c.check(api, "no-panic", name, false, || format!("{} {}", e.sig(), e.msg));
            return;
        }
    };
    match name {
        "concentric" | "identical" | "nested" => {
            c.check(api, "None when no outer tangent exists", name, res.is_none(), || "Some for a pair without outer tangents".into());
        }
        "internally-tangent" => {
            c.note("outer tangents of internally tangent circles (degenerate, not judged)");
        }
        _ => {
            if !c.check(api, "Some when outer tangents exist", name, res.is_some(), || "None".into()) {
                return;
            }
            let (s0, s1) = res.unwrap();
            let sc = c0.r() + c1.r() + c0.center.coords.norm() + c1.center.coords.norm();
            let axis = c1.center - c0.center;
            for (k, s) in [s0, s1].iter().enumerate() {
                c.check(api, "finite", name, finite2(&s.a) && finite2(&s.b), || format!("{s:?}"));
                let on = ((s.a - c0.center).norm() - c0.r()).abs().max(((s.b - c1.center).norm() - c1.r()).abs());
                c.close(api, "a on this circle, b on the other", name, on, 0.0, 1e-9 * sc);
                let dir = s.b - s.a;
                let perp = (s.a - c0.center).dot(&dir).abs().max((s.b - c1.center).dot(&dir).abs());
                c.close(api, "touches both circles tangentially", name, perp, 0.0, 1e-9 * sc * sc);
                // both circles on the same side of the tangent line (outer, not crossing, tangent)
                let s_a = cross2(&dir, &(c0.center - s.a));
                let s_b = cross2(&dir, &(c1.center - s.a));
                c.check(api, "both circles on the same side of the tangent", name, s_a * s_b > 0.0, || "centres on opposite sides: this is an inner tangent".into());
                // order: first segment to the left of c0 -> c1, second to the right
                let side = cross2(&axis, &(s.a - c0.center));
                if side.abs() > 1e-9 * sc * sc {
                    // the library has a special case for equal radii: its own input class
                    let oclass = if (c0.r() - c1.r()).abs() < 1e-10 { "equal-radii" } else { "unequal-radii" };
                    c.check(api, "documented left/right order", oclass, (side > 0.0) == (k == 0), || format!("segment {k} starts on the {} side", if side > 0.0 { "left" } else { "right" }));
                }
            }
            c.distinct(&(c0.x().to_bits(), c1.x().to_bits(), c1.r().to_bits(), 7));
        }
    }
}

/// is the global angle `t` inside the sweep (start a0, signed sweep sw)?
fn in_sweep(a0: f64, sw: f64, t: f64) -> Option<bool> {
    if sw.abs() >= TAU {
        return Some(true);
    }
    let mut off = (t - a0).rem_euclid(TAU);
    if sw < 0.0 {
        off = (TAU - off).rem_euclid(TAU);
    }
    let s = sw.abs();
    // guard band around the ends of the sweep
    if (off - s).abs() < 1e-9 || off < 1e-9 || (TAU - off) < 1e-9 {
        return None;
    }
    Some(off <= s)
}

fn run_arc(c: &mut Ctx) {
    let scale = c.rng.log_range(1e-2, 1e2);
    let r = scale * c.rng.range(0.2, 1.0);
    let offm = *c.rng.pick(&[0.0, 1.0, 100.0, 1e3]);
    let ctr = Point2::new(c.rng.range(-offm, offm), c.rng.range(-offm, offm));
    let sc = r + ctr.coords.norm();
    // ---- full circle box
    if c.rng.chance(0.1) {
        let circle = Circle2::from_point(ctr, r);
        let bb = circle.aabb();
        c.family("circle-aabb");
        c.set_case(json!({"circle": [ctr.x, ctr.y, r]}));
        let ok = (bb.mins.x - (ctr.x - r)).abs() <= 1e-12 * sc && (bb.mins.y - (ctr.y - r)).abs() <= 1e-12 * sc && (bb.maxs.x - (ctr.x + r)).abs() <= 1e-12 * sc && (bb.maxs.y - (ctr.y + r)).abs() <= 1e-12 * sc;
        c.eval();
        c.check("Circle2 aabb", "contains the circle and touches it on all four sides", "circle", ok, || format!("{bb:?}"));
    }
    // ---- arcs by angles
    let a0 = match c.rng.int(0, 3) {
        0 => (c.rng.iint(-8, 8) as f64) * PI / 2.0,
        _ => c.rng.range(-TAU, TAU),
    };
    let sw = match c.rng.int(0, 5) {
        0 => *c.rng.pick(&[0.0, TAU, -TAU, PI, -PI, PI / 2.0, -PI / 2.0, 1.5 * PI, -1.5 * PI]),
        1 => c.rng.sign() * c.rng.log_range(1e-6, 1.0),
        _ => c.rng.range(-TAU, TAU),
    };
    c.family("arc/angles");
    c.set_case(json!({"centre": [ctr.x, ctr.y], "radius": r, "angle0": a0, "sweep": sw}));
    let api = "Arc2";
    let rr = guard(|| Arc2::circle_angles(ctr, r, a0, sw));
    c.eval();
    let arc = match rr {
        Ok(a) => a,
        Err(e) => {
            c.check(api, "no-panic", "angles", false, || format!("{} {}", e.sig(), e.msg));
            return;
        }
    };
    let class = if sw == 0.0 { "zero-sweep" } else if sw.abs() >= TAU { "full-turn" } else if sw > 0.0 { "ccw" } else { "cw" };
    c.close(api, "length == r |sweep|", class, arc.length(), r * sw.abs(), 1e-12 * sc);
    let pa = |t: f64| Point2::new(ctr.x + r * t.cos(), ctr.y + r * t.sin());
    c.close(api, "start is the point at angle0", class, (arc.start() - pa(a0)).norm(), 0.0, 1e-9 * sc);
    c.close(api, "end is the point at angle0 + sweep", class, (arc.end() - pa(a0 + sw)).norm(), 0.0, 1e-9 * sc);
    c.close(api, "fraction 0 is the start", class, (arc.point_at_fraction(0.0) - arc.start()).norm(), 0.0, 1e-12 * sc);
    c.close(api, "fraction 1 is the end", class, (arc.point_at_fraction(1.0) - arc.end()).norm(), 0.0, 1e-9 * sc);
    if sw != 0.0 {
        let f = c.rng.f();
        let l = f * arc.length();
        c.close(api, "point_at_length(l) == point_at_fraction(l/length)", class, (arc.point_at_length(l) - arc.point_at_fraction(l / arc.length())).norm(), 0.0, 1e-12 * sc);
        c.close(api, "point_at_fraction follows the sweep", class, (arc.point_at_fraction(f) - pa(a0 + f * sw)).norm(), 0.0, 1e-9 * sc);
    }
    // bounding box: contains dense samples; equal to the independent box
    let bb = arc.aabb();
    let eps = 1e-9 * sc;
    let mut inside = true;
    let ns = 720;
    for i in 0..=ns {
        let p = pa(a0 + sw * i as f64 / ns as f64);
        if p.x < bb.mins.x - eps || p.x > bb.maxs.x + eps || p.y < bb.mins.y - eps || p.y > bb.maxs.y + eps {
            inside = false;
        }
    }
    c.check("Arc2 aabb", "contains the arc", class, inside, || format!("a0={a0} sweep={sw} box {bb:?}"));
    let mut pts = vec![pa(a0), pa(a0 + sw)];
    let mut decided = true;
    for k in 0..4 {
        match in_sweep(a0, sw, k as f64 * PI / 2.0) {
            Some(true) => pts.push(pa(k as f64 * PI / 2.0)),
            Some(false) => {}
            None => decided = false,
        }
    }
    if decided {
        let (mut lo, mut hi) = ([f64::INFINITY; 2], [f64::NEG_INFINITY; 2]);
        for p in &pts {
            lo[0] = lo[0].min(p.x);
            lo[1] = lo[1].min(p.y);
            hi[0] = hi[0].max(p.x);
            hi[1] = hi[1].max(p.y);
        }
        let d = (bb.mins.x - lo[0]).abs().max((bb.mins.y - lo[1]).abs()).max((bb.maxs.x - hi[0]).abs()).max((bb.maxs.y - hi[1]).abs());
        c.close("Arc2 aabb", "touches the arc on all four sides (equals the independent box)", class, d, 0.0, eps);
    } else {
        c.skip("Arc2 aabb :: touches the arc on all four sides (equals the independent box)");
    }
    c.distinct(&(ctr.x.to_bits(), a0.to_bits(), sw.to_bits()));

    // ---- arc through three points
    let t0 = c.rng.range(0.0, TAU);
    let span = c.rng.sign() * c.rng.range(0.2, TAU - 0.2);
    let f1 = c.rng.range(0.1, 0.9);
    let (p0, p1, p2) = (pa(t0), pa(t0 + f1 * span), pa(t0 + span));
    // keep the triangle well conditioned for the three-point circle
    let area2 = cross2(&(p1 - p0), &(p2 - p0)).abs();
    // (relative to the size of the triangle only: the construction has to work at every scale)
    if area2 < 1e-2 * r * r {
        return;
    }
    c.family("arc/three-points");
    c.set_case(json!({"p0": [p0.x, p0.y], "p1": [p1.x, p1.y], "p2": [p2.x, p2.y]}));
    let api = "Arc2::three_points";
    let rr = guard(|| Arc2::three_points(p0, p1, p2));
    c.eval();
    match rr {
        Err(e) => {
            c.check(api, "no-panic", "three-points", false, || format!("{} {}", e.sig(), e.msg));
        }
        Ok(arc) => {
            let cls = if span > 0.0 { "ccw" } else { "cw" };
            let tol = 1e-7 * sc + 1e4 * U * sc * sc / r;
            c.close(api, "starts at the first point", cls, (arc.start() - p0).norm(), 0.0, tol);
            c.close(api, "ends at the third point", cls, (arc.end() - p2).norm(), 0.0, tol);
            c.close(api, "second point on the circle", cls, ((p1 - arc.center()).norm() - arc.radius()).abs(), 0.0, tol);
            // sweep sign = orientation of the triple
            let orient = cross2(&(p1 - p0), &(p2 - p1));
            c.check(api, "sweep sign equals the orientation of the triple", cls, (arc.angle > 0.0) == (orient > 0.0), || format!("sweep {} orientation {orient}", arc.angle));
            c.close(api, "sweep magnitude", cls, arc.angle, span, 1e-6 + 1e4 * U * sc * sc / (r * r));
            // the second point lies inside the sweep: some fraction in (0,1) reproduces it
            let a1 = (p1 - arc.center()).y.atan2((p1 - arc.center()).x);
            let inside = in_sweep(arc.angle0, arc.angle, a1);
            if let Some(b) = inside {
                c.check(api, "passes through the second point", cls, b, || "the angle of the second point is outside the sweep".into());
            }
        }
    }
}
