//! C19 — Basis, frame and plane constructions are orthonormal and right-handed.
//!
//! Oracle: orthonormality / handedness identities, variance definition, convention-free weight
//! clauses (0/1 weights = subset, uniform scaling), equivariance under rigid motion.

use crate::gen;
use crate::report::{guard, Ctx};
use crate::{Spec, Stream};
use engeom::common::svd_basis::{iso2_from_basis, iso3_from_basis, iso3_from_xyo};
use engeom::geom3::IsoExtensions3;
use engeom::{Iso2, Iso3, Plane3, Point2, Point3, SurfacePoint3, SvdBasis2, SvdBasis3, UnitVec3, Vector2, Vector3};
use parry3d_f64::na::Matrix3;
use serde_json::json;
use std::f64::consts::PI;

pub fn spec() -> Spec {
    Spec {
        id: "C19",
        rule: "point sets with n >= D+1: generic, planar, collinear, coincident, at offsets to 1e3; weights none / all equal / 0-1 selections / arbitrary positive; \
               vector pairs of any length, skew (angle 1e-6..pi-1e-6), axis aligned incl. negated axes (180 degree frames), exactly parallel, zero; point triples and planes. \
               Non-trivial = a point set of dimension >= 1 or a non-degenerate vector pair; distinct = hash of the input bits.",
        assumptions: &[
            "basis vectors compared up to sign, and only where the singular values are separated by more than 1e-6 relative",
            "frame constructors: Err is required for exactly parallel or zero inputs, Ok for |e_a x e_b| >= 1e-8 and |e_a| >= 1e-8; between those the outcome is not judged",
            "tolerance 1e-9*scale for positions, 1e-9 for unit vectors and rotation matrices",
        ],
        streams: vec![
            Stream { name: "svd3", quick: 60_000, thorough: 2_000_000, run: run_svd3 },
            Stream { name: "svd2", quick: 60_000, thorough: 2_000_000, run: run_svd2 },
            Stream { name: "frames", quick: 150_000, thorough: 5_000_000, run: run_frames },
            Stream { name: "planes", quick: 150_000, thorough: 5_000_000, run: run_planes },
        ],
        required: vec![
            ("SvdBasis3::from_points :: centre is the (weighted) mean", 20_000),
            ("SvdBasis3::from_points :: basis orthonormal", 20_000),
            ("SvdBasis3::from_points :: 0/1 weights reproduce the decomposition of the selected subset", 3000),
            ("SvdBasis3::from_points :: unchanged by uniformly scaling all weights", 3000),
            ("SvdBasis2::from_points :: basis orthonormal", 20_000),
            ("Iso3::try_from_basis", 100_000),
            ("Plane3", 100_000),
        ],
        exhaustive_note: None,
    }
}

fn points3(c: &mut Ctx) -> (Vec<Point3>, usize, f64) {
    let n = c.rng.int(4, 60);
    let scale = c.rng.log_range(1e-2, 1e2);
    let offm = *c.rng.pick(&[0.0, 1.0, 1e3]);
    let o = Vector3::new(c.rng.range(-offm, offm), c.rng.range(-offm, offm), c.rng.range(-offm, offm));
    let dim = *c.rng.pick(&[3, 3, 3, 2, 1, 0]);
    let t = gen::iso3(&mut c.rng, 0.0);
    let ext = [scale * c.rng.range(0.5, 1.0), scale * c.rng.range(0.1, 0.5), scale * c.rng.range(0.01, 0.1)];
    let pts = (0..n)
        .map(|_| {
            let mut q = Vector3::zeros();
            for k in 0..dim {
                q[k] = ext[k] * c.rng.range(-1.0, 1.0);
            }
            Point3::from(t * q + o)
        })
        .collect();
    (pts, dim, scale)
}

fn same_up_to_sign3(a: &Vector3, b: &Vector3) -> f64 {
    (a - b).norm().min((a + b).norm())
}

fn run_svd3(c: &mut Ctx) {
    let (pts, dim, scale) = points3(c);
    let n = pts.len();
    let wmode = c.rng.int(0, 4);
    let ws: Option<Vec<f64>> = match wmode {
        0 | 1 => None,
        2 => Some(vec![c.rng.log_range(0.1, 10.0); n]),
        _ => Some((0..n).map(|_| c.rng.log_range(0.1, 10.0)).collect()),
    };
    let wname = ["unweighted", "unweighted", "equal-weights", "weights", "weights"][wmode];
    c.family(&format!("svd3/dim{dim}/{wname}"));
    c.set_case(json!({"points": gen::j3(&pts), "weights": ws, "generating_dimension": dim}));
    let off = pts.iter().map(|p| p.coords.norm()).fold(0.0, f64::max);
    let tol = 1e-9 * (scale + off);
    let api = "SvdBasis3::from_points";
    let r = guard(|| SvdBasis3::from_points(&pts, ws.as_deref()));
    c.eval();
    let Ok(b) = r else {
        c.check(api, "no-panic", wname, false, || "panic".into());
        return;
    };
    // centre
    let mean = match &ws {
        None => pts.iter().fold(Vector3::zeros(), |a, p| a + p.coords) / n as f64,
        Some(w) => pts.iter().zip(w.iter()).fold(Vector3::zeros(), |a, (p, w)| a + p.coords * *w) / w.iter().sum::<f64>(),
    };
    c.close(api, "centre is the (weighted) mean", wname, (b.center.coords - mean).norm(), 0.0, tol);
    // orthonormal basis, non-increasing singular values
    let m = Matrix3::from_columns(&b.basis);
    c.close(api, "basis orthonormal", wname, (m.transpose() * m - Matrix3::identity()).norm(), 0.0, 1e-10);
    c.check(api, "singular values non-increasing (up to rounding) and non-negative", wname, b.sv[0] * (1.0 + 1e-12) >= b.sv[1] && b.sv[1] * (1.0 + 1e-12) + 1e-12 * b.sv[0] >= b.sv[2] && b.sv[2] >= 0.0, || format!("{:?}", b.sv));
    c.check(api, "n is the number of points", wname, b.n == n, || format!("{} vs {n}", b.n));
    // round trip through the basis
    let q = pts[c.rng.int(0, n - 1)];
    let back = b.point_from_basis(&b.point_to_basis(&q));
    c.close(api, "point_from_basis(point_to_basis(p)) == p", wname, (back - q).norm(), 0.0, tol);
    if ws.is_none() {
        // sv_i^2 / n = variance of the points along basis_i
        let vars = b.basis_variances();
        for i in 0..3 {
            let v: f64 = pts.iter().map(|p| (p.coords - mean).dot(&b.basis[i]).powi(2)).sum::<f64>() / n as f64;
            c.close(api, "sv^2 / n is the variance along the axis", &format!("dim{dim}"), vars[i], v, 1e-9 * scale * scale + 1e-6 * v + tol * scale);
            c.close(api, "basis_variances == sv^2 / n", wname, vars[i], b.sv[i] * b.sv[i] / n as f64, 1e-12 * (1.0 + vars[i]));
        }
        // rank = dimension of the generating set
        let rk = b.rank(1e-6 * scale * (n as f64).sqrt() * 1e-3 + 1e3 * 2.2e-16 * off * (n as f64).sqrt());
        c.check(api, "rank reflects the dimension of the point set", &format!("dim{dim}"), rk == dim, || format!("rank {rk} for a {dim}-dimensional set, sv {:?} (scale {scale:e})", b.sv));
        // equivariance under a rigid motion
        let t = gen::iso3(&mut c.rng, 5.0 * scale);
        let moved: Vec<Point3> = pts.iter().map(|p| t * p).collect();
        if let Ok(bm) = guard(|| SvdBasis3::from_points(&moved, None)) {
            c.eval();
            let tol2 = 1e-9 * (scale + off + t.translation.vector.norm());
            c.close(api, "equivariant centre", wname, (bm.center - t * b.center).norm(), 0.0, tol2);
            for i in 0..3 {
                c.close(api, "singular values invariant under rigid motion", &format!("dim{dim}"), bm.sv[i], b.sv[i], 1e-9 * (scale + off) * (n as f64).sqrt());
            }
            let sep = |i: usize| -> bool {
                let s = b.sv[i];
                (0..3).all(|j| j == i || (b.sv[j] - s).abs() > 1e-6 * b.sv[0].max(1e-300)) && dim > i
            };
            for i in 0..3 {
                if sep(i) && b.sv[i] > 1e-6 * b.sv[0] {
                    let cond = b.sv[0] / (0..3).filter(|j| *j != i).map(|j| (b.sv[j] - b.sv[i]).abs()).fold(f64::INFINITY, f64::min);
                    c.close(api, "basis rotates with the points (up to sign)", wname, same_up_to_sign3(&bm.basis[i], &(t.rotation * b.basis[i])), 0.0, 1e-9 * cond * (1.0 + off / scale));
                }
            }
        }
    } else if dim == 3 {
        let w = ws.as_ref().unwrap();
        let cref = off / scale;
        // uniformly scaled weights: same centre, same basis
        let k = c.rng.log_range(0.1, 10.0);
        let w2: Vec<f64> = w.iter().map(|x| x * k).collect();
        if let Ok(b2) = guard(|| SvdBasis3::from_points(&pts, Some(&w2))) {
            c.eval();
            c.close(api, "unchanged by uniformly scaling all weights (centre)", wname, (b2.center - b.center).norm(), 0.0, tol);
            let gap = (b.sv[0] - b.sv[1]).abs().min((b.sv[1] - b.sv[2]).abs()) / b.sv[0];
            if gap > 1e-3 {
                let worst = (0..3).map(|i| same_up_to_sign3(&b2.basis[i], &b.basis[i])).fold(0.0, f64::max);
                // strongly anisotropic data (second singular value below 1% of the first) is its own
                // input class: the dependency's SVD returns the minor axes with erratic accuracy
                // there (known finding)
                let cls = if b.sv[1] < 1e-2 * b.sv[0] { "weights/minor-axes-below-1%-of-major" } else { wname };
                c.close(api, "unchanged by uniformly scaling all weights (basis)", cls, worst, 0.0, 1e-8 / gap * (1.0 + cref));
            }
        }
        // equal weights: the unweighted centre and basis
        if wmode == 2 {
            if let Ok(bu) = guard(|| SvdBasis3::from_points(&pts, None)) {
                c.eval();
                c.close(api, "equal weights give the unweighted centre", wname, (bu.center - b.center).norm(), 0.0, tol);
                let gap = (bu.sv[0] - bu.sv[1]).abs().min((bu.sv[1] - bu.sv[2]).abs()) / bu.sv[0];
                if gap > 1e-3 {
                    let worst = (0..3).map(|i| same_up_to_sign3(&bu.basis[i], &b.basis[i])).fold(0.0, f64::max);
                    c.close(api, "equal weights give the unweighted basis", wname, worst, 0.0, 1e-8 / gap * (1.0 + cref));
                }
            }
        }
        // 0/1 weights: exactly the unweighted decomposition of the selected subset
        let sel: Vec<bool> = (0..n).map(|_| c.rng.chance(0.6)).collect();
        let subset: Vec<Point3> = pts.iter().zip(sel.iter()).filter(|(_, s)| **s).map(|(p, _)| *p).collect();
        if subset.len() >= 5 {
            let w01: Vec<f64> = sel.iter().map(|s| if *s { 1.0 } else { 0.0 }).collect();
            let r = guard(|| (SvdBasis3::from_points(&pts, Some(&w01)), SvdBasis3::from_points(&subset, None)));
            c.evals(2);
            if let Ok((bw, bs)) = r {
                let gap = (bs.sv[0] - bs.sv[1]).abs().min((bs.sv[1] - bs.sv[2]).abs()) / bs.sv[0];
                let mut worst = (bw.center - bs.center).norm() / (scale + off);
                for i in 0..3 {
                    worst = worst.max((bw.sv[i] - bs.sv[i]).abs() / (bs.sv[0] + off));
                }
                c.close(api, "0/1 weights reproduce the decomposition of the selected subset (centre, singular values)", "selection", worst, 0.0, 1e-9 * (1.0 + (n as f64).sqrt()));
                if gap > 1e-3 {
                    let wb = (0..3).map(|i| same_up_to_sign3(&bw.basis[i], &bs.basis[i])).fold(0.0, f64::max);
                    c.close(api, "0/1 weights reproduce the decomposition of the selected subset (basis)", "selection", wb, 0.0, 1e-8 / gap * (1.0 + cref));
                }
            }
        }
    }
    // conversion to an isometry: centre to the origin, first axis to x, proper rotation
    if dim >= 2 && (b.sv[0] - b.sv[1]).abs() > 1e-6 * b.sv[0] {
        if let Ok(iso) = guard(|| Iso3::from(&b)) {
            c.eval();
            c.close("Iso3::from(&SvdBasis3)", "maps the centre to the origin", wname, (iso * b.center).coords.norm(), 0.0, tol);
            c.close("Iso3::from(&SvdBasis3)", "maps the first axis to x", wname, (iso * b.basis[0] - Vector3::x()).norm(), 0.0, 1e-6);
            // the frame agrees with point_to_basis on the second axis as well (the third is fixed by
            // right-handedness, whatever the handedness of the decomposition)
            c.close("Iso3::from(&SvdBasis3)", "maps the second axis to y", wname, (iso * b.basis[1] - Vector3::y()).norm(), 0.0, 1e-6);
        }
    }
    if dim >= 1 {
        c.distinct(&(n, pts[0].x.to_bits(), wmode));
    }
}

fn run_svd2(c: &mut Ctx) {
    let n = c.rng.int(3, 60);
    let scale = c.rng.log_range(1e-2, 1e2);
    let offm = *c.rng.pick(&[0.0, 1.0, 1e3]);
    let o = Vector2::new(c.rng.range(-offm, offm), c.rng.range(-offm, offm));
    let dim = *c.rng.pick(&[2, 2, 2, 1, 0]);
    let rot = c.rng.range(0.0, 2.0 * PI);
    let ext = [scale * c.rng.range(0.5, 1.0), scale * c.rng.range(0.05, 0.4)];
    let pts: Vec<Point2> = (0..n)
        .map(|_| {
            let mut q = Vector2::zeros();
            for k in 0..dim {
                q[k] = ext[k] * c.rng.range(-1.0, 1.0);
            }
            Point2::from(crate::oracle::rot2(&q, rot) + o)
        })
        .collect();
    let weighted = c.rng.chance(0.4);
    let ws: Option<Vec<f64>> = if weighted { Some((0..n).map(|_| c.rng.log_range(0.1, 10.0)).collect()) } else { None };
    let wname = if weighted { "weights" } else { "unweighted" };
    c.family(&format!("svd2/dim{dim}/{wname}"));
    c.set_case(json!({"points": gen::j2(&pts), "weights": ws}));
    let off = o.norm() + scale;
    let tol = 1e-9 * (scale + off);
    let api = "SvdBasis2::from_points";
    let r = guard(|| SvdBasis2::from_points(&pts, ws.as_deref()));
    c.eval();
    let Ok(b) = r else {
        c.check(api, "no-panic", wname, false, || "panic".into());
        return;
    };
    let mean = match &ws {
        None => pts.iter().fold(Vector2::zeros(), |a, p| a + p.coords) / n as f64,
        Some(w) => pts.iter().zip(w.iter()).fold(Vector2::zeros(), |a, (p, w)| a + p.coords * *w) / w.iter().sum::<f64>(),
    };
    c.close(api, "centre is the (weighted) mean", wname, (b.center.coords - mean).norm(), 0.0, tol);
    let ortho = (b.basis[0].norm() - 1.0).abs().max((b.basis[1].norm() - 1.0).abs()).max(b.basis[0].dot(&b.basis[1]).abs());
    c.close(api, "basis orthonormal", wname, ortho, 0.0, 1e-10);
    c.check(api, "singular values non-increasing (up to rounding)", wname, b.sv[0] * (1.0 + 1e-12) >= b.sv[1] && b.sv[1] >= 0.0, || format!("{:?}", b.sv));
    let q = pts[c.rng.int(0, n - 1)];
    c.close(api, "point_from_basis(point_to_basis(p)) == p", wname, (b.point_from_basis(&b.point_to_basis(&q)) - q).norm(), 0.0, tol);
    if ws.is_none() {
        let vars = b.basis_variances();
        for i in 0..2 {
            let v: f64 = pts.iter().map(|p| (p.coords - mean).dot(&b.basis[i]).powi(2)).sum::<f64>() / n as f64;
            c.close(api, "sv^2 / n is the variance along the axis", &format!("dim{dim}"), vars[i], v, 1e-9 * scale * scale + 1e-6 * v + tol * scale);
        }
        let rk = b.rank(1e-9 * scale * (n as f64).sqrt() + 1e3 * 2.2e-16 * off * (n as f64).sqrt());
        c.check(api, "rank reflects the dimension of the point set", &format!("dim{dim}"), rk == dim, || format!("rank {rk} for dim {dim}, sv {:?}", b.sv));
    } else if dim == 2 {
        let w = ws.as_ref().unwrap();
        let k = c.rng.log_range(0.1, 10.0);
        let w2: Vec<f64> = w.iter().map(|x| x * k).collect();
        if let Ok(b2) = guard(|| SvdBasis2::from_points(&pts, Some(&w2))) {
            c.eval();
            c.close(api, "unchanged by uniformly scaling all weights (centre)", wname, (b2.center - b.center).norm(), 0.0, tol);
            let gap = (b.sv[0] - b.sv[1]).abs() / b.sv[0];
            if gap > 1e-3 {
                let d = (b2.basis[0] - b.basis[0]).norm().min((b2.basis[0] + b.basis[0]).norm());
                c.close(api, "unchanged by uniformly scaling all weights (basis)", wname, d, 0.0, 1e-8 / gap * (1.0 + off / scale));
            }
        }
    }
    if dim == 2 && (b.sv[0] - b.sv[1]).abs() > 1e-6 * b.sv[0] {
        if let Ok(iso) = guard(|| Iso2::from(&b)) {
            c.eval();
            c.close("Iso2::from(&SvdBasis2)", "maps the centre to the origin", wname, (iso * b.center).coords.norm(), 0.0, tol);
            c.close("Iso2::from(&SvdBasis2)", "maps the first axis to x", wname, (iso * b.basis[0] - Vector2::x()).norm(), 0.0, 1e-6);
        }
        if let Ok(iso) = guard(|| iso2_from_basis(&b.basis, &b.center)) {
            c.close("iso2_from_basis", "maps the centre to the origin and the first axis to x", wname, (iso * b.center).coords.norm() / (scale + off) + (iso * b.basis[0] - Vector2::x()).norm(), 0.0, 1e-6);
        }
    }
    if dim >= 1 {
        c.distinct(&(n, pts[0].x.to_bits(), weighted));
    }
}

fn special_vec3(c: &mut Ctx) -> Vector3 {
    match c.rng.int(0, 5) {
        0 => *c.rng.pick(&[Vector3::x(), Vector3::y(), Vector3::z(), -Vector3::x(), -Vector3::y(), -Vector3::z()]),
        _ => gen::unit3(&mut c.rng),
    }
}

fn run_frames(c: &mut Ctx) {
    let a = special_vec3(c);
    let la = if c.rng.chance(0.3) { c.rng.log_range(1e-7, 1e-3) } else { c.rng.log_range(1e-3, 1e3) };
    let kind = c.rng.int(0, 9);
    let (b, name): (Vector3, &str) = match kind {
        0 => (a * c.rng.sign(), "parallel"),
        1 => (Vector3::zeros(), "zero-second"),
        2 | 3 => {
            // skew by a small or nearly flat angle
            let ang = if c.rng.bool() { c.rng.log_range(1e-6, 1e-1) } else { PI - c.rng.log_range(1e-6, 1e-1) };
            let perp = {
                let u = gen::unit3(&mut c.rng);
                (u - a * u.dot(&a)).normalize()
            };
            (a * ang.cos() + perp * ang.sin(), "skew")
        }
        4 => (special_vec3(c), "axis-or-random"),
        _ => (gen::unit3(&mut c.rng), "general"),
    };
    let lb = if c.rng.chance(0.3) { c.rng.log_range(1e-7, 1e-3) } else { c.rng.log_range(1e-3, 1e3) };
    let (e_a, e_b) = (if kind == 8 { Vector3::zeros() } else { a * la }, b * lb);
    let name = if kind == 8 { "zero-first" } else { name };
    let origin = if c.rng.bool() { Some(Point3::new(c.rng.range(-1e3, 1e3), c.rng.range(-1e3, 1e3), c.rng.range(-1e3, 1e3))) } else { None };
    let which = c.rng.int(0, 5);
    let (fname, pcol, scol) = [("xy", 0, 1), ("xz", 0, 2), ("yz", 1, 2), ("yx", 1, 0), ("zx", 2, 0), ("zy", 2, 1)][which];
    c.family(&format!("frames/{fname}/{name}"));
    c.set_case(json!({"constructor": fname, "first": [e_a.x, e_a.y, e_a.z], "second": [e_b.x, e_b.y, e_b.z], "origin": origin.map(|o| vec![o.x, o.y, o.z])}));
    let api = format!("Iso3::try_from_basis_{fname}");
    let r = guard(|| match which {
        0 => Iso3::try_from_basis_xy(&e_a, &e_b, origin),
        1 => Iso3::try_from_basis_xz(&e_a, &e_b, origin),
        2 => Iso3::try_from_basis_yz(&e_a, &e_b, origin),
        3 => Iso3::try_from_basis_yx(&e_a, &e_b, origin),
        4 => Iso3::try_from_basis_zx(&e_a, &e_b, origin),
        _ => Iso3::try_from_basis_zy(&e_a, &e_b, origin),
    }
    .ok());
    c.eval();
    let Ok(res) = r else {
        c.check(&api, "no-panic", name, false, || "panic".into());
        return;
    };
    let cr = e_a.cross(&e_b).norm();
    let degenerate = e_a.norm() == 0.0 || e_b.norm() == 0.0 || name == "parallel";
    if degenerate {
        c.check(&api, "fails for parallel or zero inputs", name, res.is_none(), || format!("Ok for first {e_a:?} second {e_b:?}"));
        return;
    }
    // what matters is the second argument's component perpendicular to the (normalised) first
    if cr / e_a.norm() < 1e-8 || e_a.norm() < 1e-8 {
        c.note("frame constructor input inside the parallel/zero guard band (not judged)");
        return;
    }
    if !c.check(&api, "succeeds for independent inputs", name, res.is_some(), || format!("Err for |a x b| = {cr:e}")) {
        return;
    }
    let iso = res.unwrap();
    let m = *iso.rotation.to_rotation_matrix().matrix();
    c.close(&api, "proper rotation (R^T R = I, det = +1)", name, (m.transpose() * m - Matrix3::identity()).norm() + (m.determinant() - 1.0).abs(), 0.0, 1e-9);
    let p = m.column(pcol).into_owned();
    let s = m.column(scol).into_owned();
    c.close(&api, "primary axis is the normalised first argument", name, (p - e_a.normalize()).norm(), 0.0, 1e-9);
    // secondary axis: in the plane of the inputs, on the side of the second argument
    let nrm = e_a.cross(&e_b).normalize();
    c.close(&api, "secondary axis coplanar with the two inputs", name, s.dot(&nrm), 0.0, 1e-7);
    c.check(&api, "secondary axis in the half-plane of the second argument", name, s.dot(&e_b) > 0.0, || format!("secondary {s:?} second argument {e_b:?}"));
    let o = origin.unwrap_or(Point3::origin());
    c.close(&api, "maps the origin to the given point", name, (iso * Point3::origin() - o).norm(), 0.0, 1e-12 * (1.0 + o.coords.norm()));
    c.distinct(&(which, e_a.x.to_bits(), e_b.y.to_bits()));

    // xyo / basis helpers with orthonormal input
    if which == 0 {
        let x0 = UnitVec3::new_normalize(e_a);
        let yv = UnitVec3::new_normalize(e_b);
        if let Ok(t) = guard(|| iso3_from_xyo(&x0, &yv, &o)) {
            c.eval();
            c.close("iso3_from_xyo", "maps the origin point to zero and x0 to x", name, (t * o).coords.norm() / (1.0 + o.coords.norm()) + (t * x0.into_inner() - Vector3::x()).norm(), 0.0, 1e-6);
            let ty = t * yv.into_inner();
            c.check("iso3_from_xyo", "y lands in the +y half of the xy plane", name, ty.y > 0.0 && ty.z.abs() < 1e-6, || format!("{ty:?}"));
        }
        let basis = [p, s, m.column(3 - pcol - scol).into_owned()];
        if let Ok(t) = guard(|| iso3_from_basis(&basis, &o)) {
            c.eval();
            c.close("iso3_from_basis", "maps the origin point to zero and the first axis to x", name, (t * o).coords.norm() / (1.0 + o.coords.norm()) + (t * basis[0] - Vector3::x()).norm() + (t * basis[1] - Vector3::y()).norm(), 0.0, 1e-6);
        }
    }
}

fn run_planes(c: &mut Ctx) {
    let scale = c.rng.log_range(1e-2, 1e2);
    let offm = *c.rng.pick(&[0.0, 1.0, 1e3]);
    let rp = |c: &mut Ctx| Point3::new(c.rng.range(-offm, offm) + scale * c.rng.range(-1.0, 1.0), c.rng.range(-offm, offm) + scale * c.rng.range(-1.0, 1.0), c.rng.range(-offm, offm) + scale * c.rng.range(-1.0, 1.0));
    let (p1, p2, p3) = (rp(c), rp(c), rp(c));
    let q = rp(c);
    c.family("planes");
    c.set_case(json!({"p1": [p1.x, p1.y, p1.z], "p2": [p2.x, p2.y, p2.z], "p3": [p3.x, p3.y, p3.z], "q": [q.x, q.y, q.z]}));
    let area2 = (p2 - p1).cross(&(p3 - p1)).norm();
    let emax = (p2 - p1).norm().max((p3 - p1).norm());
    if area2 < 1e-3 * emax * emax {
        return;
    }
    let off = p1.coords.norm() + emax + q.coords.norm();
    let cond = emax * emax / area2;
    let tol = 1e-9 * (scale + off) * cond;
    let r = guard(|| Plane3::from((&p1, &p2, &p3)));
    c.eval();
    let Ok(pl) = r else {
        c.check("Plane3::from(three points)", "no-panic", "plane", false, || "panic".into());
        return;
    };
    let worst = pl.signed_distance_to_point(&p1).abs().max(pl.signed_distance_to_point(&p2).abs()).max(pl.signed_distance_to_point(&p3).abs());
    c.close("Plane3::from(three points)", "contains its three defining points", "plane", worst, 0.0, tol);
    c.close("Plane3::from(three points)", "unit normal", "plane", pl.normal.norm(), 1.0, 1e-12);
    // right-handed: normal along (p2-p1) x (p3-p1)
    c.check("Plane3::from(three points)", "normal follows the winding of the points", "plane", pl.normal.dot(&(p2 - p1).cross(&(p3 - p1))) > 0.0, || "normal against the winding".into());
    // point + normal, surface point
    let n = UnitVec3::new_normalize(gen::unit3(&mut c.rng));
    let pn = Plane3::from((&n, &p1));
    c.close("Plane3::from(normal, point)", "contains its defining point", "plane", pn.signed_distance_to_point(&p1), 0.0, 1e-9 * (scale + off));
    let sp = SurfacePoint3::new(p2, n);
    let ps = Plane3::from(&sp);
    c.close("Plane3::from(surface point)", "contains its defining point, same normal", "plane", ps.signed_distance_to_point(&p2).abs() + (ps.normal.into_inner() - n.into_inner()).norm(), 0.0, 1e-9 * (scale + off));
    c.evals(3);
    // projection
    let pr = pl.project_point(&q);
    let d = pl.signed_distance_to_point(&q);
    c.close("Plane3::project_point", "lands on the plane", "plane", pl.signed_distance_to_point(&pr), 0.0, tol);
    c.close("Plane3::project_point", "idempotent", "plane", (pl.project_point(&pr) - pr).norm(), 0.0, tol);
    c.close("Plane3::project_point", "moves along the normal by the signed distance", "plane", ((q - pr) - pl.normal.into_inner() * d).norm(), 0.0, tol);
    c.close("Plane3::distance_to_point", "absolute signed distance", "plane", pl.distance_to_point(&q), d.abs(), 0.0);
    // inversion
    let inv = pl.inverted_normal();
    c.close("Plane3::inverted_normal", "flips the signed distance", "plane", inv.signed_distance_to_point(&q), -d, tol);
    c.close("Plane3::inverted_normal", "same plane", "plane", inv.signed_distance_to_point(&p1).abs(), 0.0, tol);
    // ray-plane distance
    let rn = UnitVec3::new_normalize(gen::unit3(&mut c.rng));
    let ray = SurfacePoint3::new(q, rn);
    if let Ok(res) = guard(|| pl.intersection_distance(&ray)) {
        c.eval();
        let denom = pl.normal.dot(&rn);
        if let Some(t) = res {
            let hit = ray.at_distance(t);
            c.close("Plane3::intersection_distance", "the point at the returned distance lies on the plane", "plane", pl.signed_distance_to_point(&hit), 0.0, tol / denom.abs().max(1e-6));
        } else {
            c.check("Plane3::intersection_distance", "None only for rays not heading along the normal", "plane", denom <= 1e-6 * (1.0 + 1e-9), || format!("None with n.dir = {denom}"));
        }
    }
    c.distinct(&(p1.x.to_bits(), q.y.to_bits()));
}
