//! C17 — Series and discrete domains stay sorted, finite and function-preserving.
//!
//! Oracle: a piecewise-linear model written in the harness; structural invariant checked after
//! every constructor and every step of a chain of derivations.

use crate::report::{guard, Ctx};
use crate::rng::{next_down, next_up};
use crate::{Spec, Stream};
use engeom::common::{linear_space, DiscreteDomain, Interval};
use engeom::func1::Func1;
use engeom::Series1;
use serde_json::json;

pub fn spec() -> Spec {
    Spec {
        id: "C17",
        rule: "abscissa vectors of 1..300 values, strictly increasing and with repeats, ordinates incl. NaN for remove_nan; DiscreteDomain::linear and linear_space with bounds in both orders and n = 2..200; push sequences; \
               chains (<= 6) of scaled_by(+-s), shift_by, between, split_at_x, in_interval, resampled_n, resampled_x, remove_nan, abs, dydx. \
               Non-trivial = series with >= 3 knots; distinct = hash of the data bits and the operation chain.",
        assumptions: &[
            "structural invariant after every constructor/derivation: abscissae finite and ascending, as many ordinates as abscissae - or an Err / a loud panic, never a silently invalid object",
            "slices are requested with bounds inside the domain; for a flat run lying on the level the crossings must contain the knots of the run (the interpolant equals the level on the whole run)",
            "function-preservation tolerance 1e-9*(|y| range) + 1e-12",
        ],
        streams: vec![
            Stream { name: "domains", quick: 200_000, thorough: 10_000_000, run: run_domain },
            Stream { name: "series", quick: 100_000, thorough: 5_000_000, run: run_series },
            Stream { name: "chains", quick: 100_000, thorough: 5_000_000, run: run_chain },
        ],
        required: vec![
            ("DiscreteDomain::linear :: n ascending values from min to max", 10_000),
            ("linear_space", 10_000),
            ("DiscreteDomain::push", 10_000),
            ("Series1::interpolate", 50_000),
            ("Series1::between", 20_000),
            ("Series1::split_at_x", 5000),
            ("Series1::resampled_n", 5000),
            ("Series1::y_crossings", 5000),
            ("chain", 50_000),
        ],
        exhaustive_note: None,
    }
}

fn valid_domain(v: &[f64]) -> bool {
    v.iter().all(|x| x.is_finite()) && v.windows(2).all(|w| w[0] <= w[1])
}

fn run_domain(c: &mut Ctx) {
    // ---- linear / linear_space with bounds in either order
    let (a, b) = (c.rng.range(-50.0, 50.0), c.rng.range(-50.0, 50.0));
    let n = c.rng.int(2, 200);
    c.family("domain/linear");
    c.set_case(json!({"start": a, "end": b, "n": n}));
    let order = if a <= b { "start<=end" } else { "start>end" };
    let r = guard(|| DiscreteDomain::linear(a, b, n));
    c.eval();
    match r {
        Err(_) => c.note("DiscreteDomain::linear panicked (loud failure, not judged)"),
        Ok(d) => {
            let v = d.values().to_vec();
            let (lo, hi) = (a.min(b), a.max(b));
            let ok = v.len() == n && valid_domain(&v) && (v[0] - lo).abs() <= 1e-12 * (1.0 + lo.abs()) && (v[n - 1] - hi).abs() <= 1e-9 * (1.0 + hi.abs()) && (lo == hi || v.windows(2).all(|w| w[0] < w[1]));
            c.check("DiscreteDomain::linear", "n ascending values from min to max", order, ok, || format!("linear({a}, {b}, {n}) = [{}, {}, .. {}] ({} values)", v[0], v.get(1).cloned().unwrap_or(f64::NAN), v[v.len() - 1], v.len()));
        }
    }
    let r = guard(|| linear_space(a, b, n));
    c.eval();
    match r {
        Err(_) => c.note("linear_space panicked (loud failure, not judged)"),
        Ok(d) => {
            let v = d.values().to_vec();
            c.check("linear_space", "yields a valid (finite, ascending) domain or fails", order, valid_domain(&v) && v.len() == n, || {
                format!("linear_space({a}, {b}, {n}) = [{}, {}, .. {}] is not ascending", v[0], v.get(1).cloned().unwrap_or(f64::NAN), v[v.len() - 1])
            });
            if a <= b && valid_domain(&v) && v.len() == n {
                c.check("linear_space", "first == start, last == end", order, v[0] == a && (v[n - 1] - b).abs() <= 1e-9 * (1.0 + b.abs()), || format!("{} .. {}", v[0], v[n - 1]));
            }
        }
    }
    // ---- from vectors
    c.family("domain/from-vector");
    let m = c.rng.int(0, 40);
    let mut v: Vec<f64> = Vec::new();
    let mut x = c.rng.range(-10.0, 10.0);
    for _ in 0..m {
        v.push(x);
        x += match c.rng.int(0, 4) {
            0 => 0.0,
            _ => c.rng.log_range(1e-6, 3.0),
        };
    }
    let mut expect_ok = true;
    match c.rng.int(0, 5) {
        0 if m >= 2 => {
            let i = c.rng.int(0, m - 1);
            v[i] = *c.rng.pick(&[f64::NAN, f64::INFINITY, f64::NEG_INFINITY]);
            expect_ok = false;
        }
        1 if m >= 2 => {
            let i = c.rng.int(1, m - 1);
            if v[i] > v[i - 1] {
                v.swap(i, i - 1);
                expect_ok = false;
            }
        }
        _ => {}
    }
    let r = guard(|| DiscreteDomain::try_from(v.clone()).ok());
    c.eval();
    if let Ok(res) = r {
        c.check("DiscreteDomain::try_from", "Ok iff finite and ascending", "vector", res.is_some() == expect_ok, || format!("{v:?} -> {}", res.is_some()));
        if let Some(d) = res {
            c.check("DiscreteDomain::try_from", "keeps the values", "vector", d.values() == v.as_slice(), || "values changed".into());
            // index_of / bounds by definition
            if !v.is_empty() {
                let b = d.bounds();
                c.check("DiscreteDomain::bounds", "first..last", "vector", b.map(|i| (i.min, i.max)) == Some((v[0], v[m - 1])), || format!("{b:?}"));
                for _ in 0..4 {
                    let q = match c.rng.int(0, 3) {
                        0 => v[c.rng.int(0, m - 1)],
                        1 => next_up(v[c.rng.int(0, m - 1)]),
                        2 => next_down(v[c.rng.int(0, m - 1)]),
                        _ => c.rng.range(v[0] - 1.0, v[m - 1] + 1.0),
                    };
                    let got = d.index_of(q);
                    c.eval();
                    if q < v[0] || q > v[m - 1] {
                        c.check("DiscreteDomain::index_of", "None outside the bounds", "vector", got.is_none(), || format!("{q} -> {got:?}"));
                    } else {
                        // some index i with v[i] <= q and (i is last or q <= v[i+1])
                        let ok = got.map(|i| i < m && v[i] <= q && (i + 1 == m || q <= v[i + 1])).unwrap_or(false);
                        c.check("DiscreteDomain::index_of", "index of the knot at or before the value", "vector", ok, || format!("{q} -> {got:?} in {v:?}"));
                    }
                }
            } else {
                c.check("DiscreteDomain::bounds", "None when empty", "vector", d.bounds().is_none() && d.index_of(0.0).is_none(), || "empty".into());
            }
        }
    } else {
        c.check("DiscreteDomain::try_from", "no-panic", "vector", false, || "panic".into());
    }
    // ---- push histories against a Vec model
    c.family("domain/push");
    let mut d = DiscreteDomain::default();
    let mut model: Vec<f64> = Vec::new();
    let steps = c.rng.int(1, 30);
    let mut hist = Vec::new();
    for _ in 0..steps {
        let last = model.last().cloned().unwrap_or(0.0);
        let x = match c.rng.int(0, 6) {
            0 => f64::NAN,
            1 => *c.rng.pick(&[f64::INFINITY, f64::NEG_INFINITY]),
            2 => last,
            3 => next_down(last),
            4 => last - c.rng.range(0.0, 2.0),
            _ => last + c.rng.range(0.0, 2.0),
        };
        hist.push(x);
        let accept = x.is_finite() && (model.is_empty() || x >= last);
        let r = guard(|| d.push(x).is_ok());
        c.eval();
        match r {
            Ok(ok) => {
                c.check("DiscreteDomain::push", "accepted iff finite and not below the last value", "history", ok == accept, || format!("push({x}) after {:?} -> {ok}", model.last()));
                if accept {
                    model.push(x);
                }
                c.check("DiscreteDomain::push", "contents track the accepted pushes", "history", d.values().len() == model.len() && d.values().iter().zip(model.iter()).all(|(p, q)| p == q), || format!("{:?} vs {:?}", d.values(), model));
            }
            Err(_) => {
                c.check("DiscreteDomain::push", "no-panic", "history", false, || "panic".into());
                break;
            }
        }
    }
    c.set_case(json!({"pushes": hist.iter().map(|x| format!("{x}")).collect::<Vec<_>>()}));
    c.distinct(&(a.to_bits(), n, m, steps));
}

/// the harness's piecewise-linear model
struct Pl {
    x: Vec<f64>,
    y: Vec<f64>,
}

impl Pl {
    /// all values the interpolant may legitimately take at q (several at a repeated abscissa)
    fn at(&self, q: f64) -> Vec<f64> {
        let n = self.x.len();
        if q < self.x[0] || q > self.x[n - 1] {
            return vec![f64::NAN];
        }
        let mut out = Vec::new();
        for i in 0..n {
            if self.x[i] == q {
                out.push(self.y[i]);
            }
        }
        if !out.is_empty() {
            return out;
        }
        for i in 0..n - 1 {
            if self.x[i] < q && q < self.x[i + 1] {
                let t = (q - self.x[i]) / (self.x[i + 1] - self.x[i]);
                out.push(self.y[i] + t * (self.y[i + 1] - self.y[i]));
            }
        }
        out
    }
    fn area(&self) -> f64 {
        (0..self.x.len() - 1).map(|i| (self.x[i + 1] - self.x[i]) * (self.y[i] + self.y[i + 1]) * 0.5).sum()
    }
    fn yspan(&self) -> f64 {
        let (mut lo, mut hi) = (f64::INFINITY, f64::NEG_INFINITY);
        for v in &self.y {
            if v.is_finite() {
                lo = lo.min(*v);
                hi = hi.max(*v);
            }
        }
        if hi >= lo {
            (hi - lo).max(hi.abs()).max(lo.abs())
        } else {
            1.0
        }
    }
}

fn gen_series(c: &mut Ctx, allow_repeats: bool, allow_nan: bool) -> (Vec<f64>, Vec<f64>) {
    let n = match c.rng.int(0, 9) {
        0 => 1,
        1 => 2,
        _ => c.rng.int(3, 300),
    };
    let mut xs = Vec::new();
    let mut x = c.rng.range(-20.0, 20.0);
    for _ in 0..n {
        xs.push(x);
        x += if allow_repeats && c.rng.chance(0.1) { 0.0 } else { c.rng.log_range(1e-3, 2.0) };
    }
    let ys: Vec<f64> = (0..n)
        .map(|i| if allow_nan && c.rng.chance(0.05) { f64::NAN } else { 3.0 * (0.7 * xs[i]).sin() + c.rng.range(-1.0, 1.0) })
        .collect();
    (xs, ys)
}

fn structurally_valid(s: &Series1) -> bool {
    valid_domain(s.x.values()) && s.x.len() == s.y.len()
}

fn run_series(c: &mut Ctx) {
    let repeats = c.rng.chance(0.3);
    let (xs, ys) = gen_series(c, repeats, false);
    let n = xs.len();
    c.family(&format!("series/{}", if repeats { "with-repeats" } else { "strict" }));
    c.set_case(json!({"xs": xs, "ys": ys}));
    let class = if repeats { "repeated-abscissae" } else { "strictly-increasing" };
    let Ok(Ok(s)) = guard(|| Series1::try_new(xs.clone(), ys.clone())) else {
        c.check("Series1::try_new", "accepts finite ascending abscissae", class, false, || "rejected".into());
        return;
    };
    c.eval();
    // length mismatch is rejected
    if let Ok(r) = guard(|| Series1::try_new(xs.clone(), ys[..n - 1].to_vec()).is_ok()) {
        c.check("Series1::try_new", "length mismatch => Err", class, !r, || "accepted".into());
    }
    let pl = Pl { x: xs.clone(), y: ys.clone() };
    let tol = 1e-9 * pl.yspan() + 1e-12;
    // ---- interpolation
    for _ in 0..10 {
        let q = match c.rng.int(0, 4) {
            0 => xs[c.rng.int(0, n - 1)],
            1 => next_up(xs[c.rng.int(0, n - 1)]),
            2 => next_down(xs[c.rng.int(0, n - 1)]),
            3 => c.rng.range(xs[0] - 1.0, xs[n - 1] + 1.0),
            _ => c.rng.range(xs[0], xs[n - 1]),
        };
        let r = guard(|| (s.interpolate(q), s.f(q)));
        c.evals(2);
        match r {
            Err(p) => {
                c.check("Series1::interpolate", "no-panic", class, false, || format!("{} {} at {q}", p.sig(), p.msg));
            }
            Ok((got, gf)) => {
                let want = pl.at(q);
                let ok = want.iter().any(|w| (w.is_nan() && got.is_nan()) || (w - got).abs() <= tol);
                // between two equal abscissae any blend of the two stored values is also the graph
                c.check("Series1::interpolate", "stored value at knots, linear blend between, NaN outside", class, ok || want.is_empty(), || format!("f({q}) = {got}, model {want:?}"));
                c.check("Series1::f", "same as interpolate", class, (gf.is_nan() && got.is_nan()) || gf == got, || format!("{gf} vs {got}"));
            }
        }
    }
    if n < 2 {
        return;
    }
    let (x_lo, x_hi) = (xs[0], xs[n - 1]);
    if x_hi <= x_lo {
        return;
    }
    // ---- between / in_interval with bounds inside the domain
    for _ in 0..4 {
        let (mut a, mut b) = (c.rng.range(x_lo, x_hi), c.rng.range(x_lo, x_hi));
        if c.rng.chance(0.3) {
            a = xs[c.rng.int(0, n - 1)];
        }
        if c.rng.chance(0.3) {
            b = xs[c.rng.int(0, n - 1)];
        }
        // a bound a hair (1 ulp .. 1e-9 relative) off a knot, still inside the domain
        if c.rng.chance(0.25) {
            let k = xs[c.rng.int(0, n - 1)];
            let h = if c.rng.bool() { 0.0 } else { k.abs().max(1e-300) * c.rng.log_range(1e-15, 1e-9) };
            let v = if c.rng.bool() { next_up(k + h) } else { next_down(k - h) };
            if v > x_lo && v < x_hi {
                if c.rng.bool() {
                    b = v;
                } else {
                    a = v;
                }
            }
        }
        if a > b {
            std::mem::swap(&mut a, &mut b);
        }
        if a == b {
            continue;
        }
        let r = guard(|| if c.rng.clone().bool() { s.between(a, b) } else { s.in_interval(Interval::new(a, b)) });
        c.eval();
        let piece = match r {
            Err(p) => {
                c.check("Series1::between", "succeeds for bounds inside the domain", class, false, || format!("{} {} [{a},{b}]", p.sig(), p.msg));
                continue;
            }
            Ok(p) => p,
        };
        if !c.check("Series1::between", "result is a valid series", class, structurally_valid(&piece) && !piece.x.is_empty(), || format!("x {:?} y-count {}", piece.x.values().len(), piece.y.len())) {
            continue;
        }
        let px = piece.x.values();
        c.check("Series1::between", "ends exactly at the requested bounds", class, px[0] == a && px[px.len() - 1] == b, || format!("[{a},{b}] -> [{}, {}]", px[0], px[px.len() - 1]));
        // same function on its interval
        let mut worst = 0.0f64;
        for _ in 0..20 {
            let q = c.rng.range(a, b);
            let got = piece.interpolate(q);
            let want = pl.at(q);
            let e = want.iter().map(|w| (w - got).abs()).fold(f64::INFINITY, f64::min);
            if want.len() == 1 {
                worst = worst.max(e);
            }
        }
        c.close("Series1::between", "evaluates like its parent on its interval", class, worst, 0.0, tol);
    }
    // ---- split: areas add up, pieces meet at x
    {
        let xq = if c.rng.chance(0.3) { xs[c.rng.int(0, n - 1)] } else { c.rng.range(x_lo, x_hi) };
        let r = guard(|| s.split_at_x(xq));
        c.eval();
        match r {
            Err(p) => {
                c.check("Series1::split_at_x", "succeeds inside the domain", class, false, || format!("{} {} at {xq}", p.sig(), p.msg));
            }
            Ok((Some(l), Some(rr))) => {
                if c.check("Series1::split_at_x", "pieces are valid series", class, structurally_valid(&l) && structurally_valid(&rr) && !l.x.is_empty() && !rr.x.is_empty(), || "invalid piece".into()) {
                    let lx = l.x.values();
                    let rx = rr.x.values();
                    c.check("Series1::split_at_x", "left ends and right starts at x", class, lx[lx.len() - 1] == xq && rx[0] == xq && lx[0] == x_lo && rx[rx.len() - 1] == x_hi, || format!("left [{}, {}] right [{}, {}] x={xq}", lx[0], lx[lx.len() - 1], rx[0], rx[rx.len() - 1]));
                    let total = pl.area();
                    let scale = (x_hi - x_lo) * pl.yspan();
                    let (al, ar) = (if l.x.len() >= 2 { l.area_under() } else { 0.0 }, if rr.x.len() >= 2 { rr.area_under() } else { 0.0 });
                    c.close("Series1::split_at_x", "areas of the pieces add up to the whole", class, al + ar, total, 1e-9 * scale + 1e-12);
                }
            }
            Ok(_) => {
                c.check("Series1::split_at_x", "two pieces for x inside the domain", class, false, || format!("a piece is missing for x={xq} in [{x_lo},{x_hi}]"));
            }
        }
        let whole = guard(|| s.area_under());
        if let Ok(a) = whole {
            c.close("Series1::area_under", "trapezoid area", class, a, pl.area(), 1e-9 * (x_hi - x_lo) * pl.yspan() + 1e-12);
        }
    }
    // ---- resampling
    {
        let k = c.rng.int(2, 120);
        let r = guard(|| s.resampled_n(k));
        c.eval();
        match r {
            Err(p) => {
                c.check("Series1::resampled_n", "succeeds for n >= 2", class, false, || format!("{} {} n={k}", p.sig(), p.msg));
            }
            Ok(rs) => {
                if c.check("Series1::resampled_n", "valid series with n points", class, structurally_valid(&rs) && rs.x.len() == k, || format!("{} points for n={k}", rs.x.len())) {
                    let rx = rs.x.values();
                    c.check("Series1::resampled_n", "keeps both end points", class, rx[0] == x_lo && (rx[k - 1] - x_hi).abs() <= 1e-12 * (1.0 + x_hi.abs()), || format!("[{}, {}] vs [{x_lo}, {x_hi}]", rx[0], rx[k - 1]));
                    let mut worst = 0.0f64;
                    for i in 0..k {
                        let want = pl.at(rx[i]);
                        if want.len() == 1 && want[0].is_finite() {
                            worst = worst.max((want[0] - rs.y[i]).abs());
                        }
                    }
                    c.close("Series1::resampled_n", "every point lies on the piecewise-linear graph", class, worst, 0.0, tol);
                    c.check("Series1::resampled_n", "abscissae stay inside the parent's domain and no ordinate is lost", class, rx[k - 1] <= x_hi && rx[0] >= x_lo && rs.y.iter().all(|v| v.is_finite()), || {
                        format!("last abscissa {} vs x_max {x_hi}; NaN ordinates: {}", rx[k - 1], rs.y.iter().filter(|v| !v.is_finite()).count())
                    });
                }
            }
        }
        let sp = (x_hi - x_lo) / c.rng.range(1.5, 80.0);
        let r = guard(|| s.resampled_x(sp));
        c.eval();
        if let Ok(rs) = r {
            if c.check("Series1::resampled_x", "valid series", class, structurally_valid(&rs) && rs.x.len() >= 2, || "invalid".into()) {
                let rx = rs.x.values();
                let gap = rx.windows(2).map(|w| w[1] - w[0]).fold(0.0, f64::max);
                c.check("Series1::resampled_x", "spacing not above the request, ends kept", class, gap <= sp * (1.0 + 1e-9) && rx[0] == x_lo && (rx[rx.len() - 1] - x_hi).abs() <= 1e-12 * (1.0 + x_hi.abs()), || format!("max gap {gap} for spacing {sp}"));
            }
        } else {
            c.check("Series1::resampled_x", "succeeds", class, false, || "panic".into());
        }
    }
    // ---- level crossings (strictly increasing abscissae; level not equal to a flat segment)
    if !repeats {
        // a level in general position, or exactly one of the stored ordinates, or the ordinate of a
        // flat run (one case in five: a copy of the series with 1-3 consecutive equal ordinates)
        let mut ys = ys.clone();
        let mut level = if c.rng.chance(0.35) { ys[c.rng.int(0, n - 1)] } else { c.rng.range(-3.0, 3.0) };
        let mut s = s.clone();
        let mut pl = Pl { x: xs.clone(), y: ys.clone() };
        let mut class = class;
        if n >= 3 && c.rng.chance(0.2) {
            let i = c.rng.int(0, n - 2);
            let run = c.rng.int(1, 3).min(n - 1 - i);
            for k in 1..=run {
                ys[i + k] = ys[i];
            }
            if c.rng.chance(0.1) {
                ys.iter_mut().for_each(|y| *y = 0.0); // an identically zero series at level 0
            }
            level = ys[i];
            if let Ok(Ok(s2)) = guard(|| Series1::try_new(xs.clone(), ys.clone())) {
                s = s2;
                pl = Pl { x: xs.clone(), y: ys.clone() };
                class = "flat-run-on-the-level";
                c.set_case(json!({"xs": xs, "ys": ys, "level": level}));
            }
        }
        {
            let r = guard(|| s.y_crossings(level));
            c.eval();
            match r {
                Err(p) => {
                    c.check("Series1::y_crossings", "no-panic", class, false, || format!("{} {}", p.sig(), p.msg));
                }
                Ok(cr) => {
                    // a crossing computed as x0 + (level - y0)/m may land one rounding error outside
                    // the last knot: evaluate the model at the nearest abscissa of the domain
                    let snap = |x: f64| if x < x_lo && x_lo - x <= 1e-9 * (1.0 + x_lo.abs()) { x_lo } else if x > x_hi && x - x_hi <= 1e-9 * (1.0 + x_hi.abs()) { x_hi } else { x };
                    let worst = cr.iter().map(|x| pl.at(snap(*x)).iter().map(|w| (w - level).abs()).fold(f64::INFINITY, f64::min)).fold(0.0, f64::max);
                    if c.verbose {
                        for x in &cr {
                            let e = pl.at(snap(*x)).iter().map(|w| (w - level).abs()).fold(f64::INFINITY, f64::min);
                            if e > 1e-9 {
                                let i = xs.iter().position(|k| *k > *x).unwrap_or(n - 1).max(1);
                                println!("  level {level:e}: crossing {x:e} is off by {e:e}; segment ({:e},{:e})-({:e},{:e})", xs[i - 1], ys[i - 1], xs[i], ys[i]);
                            }
                        }
                    }
                    c.close("Series1::y_crossings", "interpolant equals the level at every returned abscissa", class, worst, 0.0, 1e-7 * pl.yspan());
                    // every strict sign change between consecutive knots is represented
                    let mut all = true;
                    for i in 0..n - 1 {
                        let (d0, d1) = (ys[i] - level, ys[i + 1] - level);
                        if d0 * d1 < 0.0 {
                            let hit = cr.iter().any(|x| *x >= xs[i] - 1e-9 && *x <= xs[i + 1] + 1e-9);
                            all &= hit;
                        }
                    }
                    c.check("Series1::y_crossings", "every sign change is represented", class, all, || format!("level {level}: {} crossings", cr.len()));
                    // every knot whose ordinate equals the level is an abscissa where the interpolant
                    // equals the level
                    let mut knots = true;
                    for i in 0..n {
                        if ys[i] == level {
                            knots &= cr.iter().any(|x| (*x - xs[i]).abs() <= 1e-9 * (1.0 + xs[i].abs()));
                        }
                    }
                    c.check("Series1::y_crossings", "every knot on the level is returned", class, knots, || format!("level {level} equals a stored ordinate that is not among the {} crossings", cr.len()));
                    c.check("Series1::y_crossings", "ascending", class, cr.windows(2).all(|w| w[0] <= w[1]), || format!("{cr:?}"));
                }
            }
        }
    }
    if n >= 3 {
        c.distinct(&(n, xs[0].to_bits(), ys[0].to_bits()));
    }
}

fn run_chain(c: &mut Ctx) {
    let (xs, ys) = gen_series(c, c.rng.clone().chance(0.2), true);
    if xs.len() < 3 {
        return;
    }
    c.family("chain");
    let Ok(Ok(mut s)) = guard(|| Series1::try_new(xs.clone(), ys.clone())) else { return };
    let mut ops = Vec::new();
    let steps = c.rng.int(1, 6);
    for _ in 0..steps {
        if s.x.len() < 2 {
            break;
        }
        let (lo, hi) = (s.x_min(), s.x_max());
        if !(hi > lo) {
            break;
        }
        let op = c.rng.int(0, 8);
        // x' = kx x + dx, y' = ky y + dy for the two affine derivations
        let mut affine: Option<(f64, f64, f64, f64)> = None;
        let (name, r): (String, Result<Series1, crate::report::Caught>) = match op {
            0 => {
                let k = c.rng.sign() * c.rng.log_range(0.1, 10.0);
                let ky = c.rng.range(-3.0, 3.0);
                affine = Some((k, 0.0, ky, 0.0));
                (format!("scaled_by({k},{ky})"), guard(|| s.scaled_by(k, ky)))
            }
            1 => {
                let (dx, dy) = (c.rng.range(-10.0, 10.0), c.rng.range(-10.0, 10.0));
                affine = Some((1.0, dx, 1.0, dy));
                (format!("shift_by({dx},{dy})"), guard(|| s.shift_by(dx, dy)))
            }
            2 => {
                let (mut a, mut b) = (c.rng.range(lo, hi), c.rng.range(lo, hi));
                if a > b {
                    std::mem::swap(&mut a, &mut b);
                }
                if a == b {
                    continue;
                }
                (format!("between({a},{b})"), guard(|| s.between(a, b)))
            }
            3 => {
                let x = c.rng.range(lo, hi);
                let left = c.rng.bool();
                (format!("split_at_x({x}).{}", if left { 0 } else { 1 }), guard(|| {
                    let (l, r) = s.split_at_x(x);
                    if left { l.unwrap() } else { r.unwrap() }
                }))
            }
            4 => {
                let k = c.rng.int(2, 60);
                (format!("resampled_n({k})"), guard(|| s.resampled_n(k)))
            }
            5 => {
                let sp = (hi - lo) / c.rng.range(1.5, 40.0);
                (format!("resampled_x({sp})"), guard(|| s.resampled_x(sp)))
            }
            6 => ("remove_nan".into(), guard(|| s.remove_nan())),
            7 => ("abs".into(), guard(|| s.abs())),
            _ => ("dydx".into(), guard(|| s.dydx())),
        };
        c.eval();
        ops.push(name.clone());
        match r {
            Err(p) => {
                c.set_case(json!({"xs": xs, "ys": ys.iter().map(|v| format!("{v}")).collect::<Vec<_>>(), "ops": ops}));
                // a loud failure is not a silently invalid object, but inside the domain of the
                // property (>= 2 knots, positive width) the derivation is expected to succeed
                let opn = name.split('(').next().unwrap_or("").to_string();
                c.check("chain", "derivation succeeds", &opn, false, || format!("{} {} in {name} after {:?}", p.sig(), p.msg, &ops[..ops.len() - 1]));
                return;
            }
            Ok(ns) => {
                let opn = name.split('(').next().unwrap_or("").to_string();
                let ok = structurally_valid(&ns);
                if !ok {
                    c.set_case(json!({"xs": xs, "ys": ys.iter().map(|v| format!("{v}")).collect::<Vec<_>>(), "ops": ops}));
                }
                if !c.check("chain", "result has finite ascending abscissae and matching ordinates", &opn, ok, || {
                    format!("{name}: {} abscissae, {} ordinates, valid domain: {}", ns.x.len(), ns.y.len(), valid_domain(ns.x.values()))
                }) {
                    return;
                }
                if opn == "remove_nan" {
                    c.check("chain", "remove_nan leaves no NaN", &opn, !ns.has_nan(), || "NaN left".into());
                }
                if opn == "scaled_by" || opn == "shift_by" || opn == "abs" || opn == "dydx" {
                    c.check("chain", "point count kept", &opn, ns.x.len() == s.x.len(), || format!("{} -> {}", s.x.len(), ns.x.len()));
                }
                if let Some((kx, dx, ky, dy)) = affine {
                    // the derived series is the same function in the new coordinates: every knot
                    // (x, y) of the parent appears as (kx x + dx, ky y + dy)
                    if ns.x.len() == s.x.len() {
                        let m = s.x.len();
                        let yspan = s.y.iter().filter(|v| v.is_finite()).fold(0.0f64, |a, v| a.max(v.abs())) * ky.abs() + dy.abs() + 1e-300;
                        let xspan = (s.x[m - 1] - s.x[0]).abs() * kx.abs() + 1e-300;
                        let mut bad = None;
                        for i in 0..m {
                            let j = if kx < 0.0 { m - 1 - i } else { i };
                            let (wx, wy) = (kx * s.x[i] + dx, ky * s.y[i] + dy);
                            let okx = (ns.x[j] - wx).abs() <= 1e-12 * (xspan + wx.abs());
                            let oky = (ns.y[j].is_nan() && wy.is_nan()) || ns.y[j] == wy || (ns.y[j] - wy).abs() <= 1e-12 * (yspan + wy.abs());
                            if !(okx && oky) && bad.is_none() {
                                bad = Some((i, wx, wy, ns.x[j], ns.y[j]));
                            }
                        }
                        c.check("chain", "scaling / shifting maps every knot (x, y) to (kx x + dx, ky y + dy)", &opn, bad.is_none(), || format!("{name}: knot, wanted (x, y), got (x, y) = {:?}", bad));
                    }
                }
                s = ns;
            }
        }
    }
    c.set_case(json!({"xs": xs, "ys": ys.iter().map(|v| format!("{v}")).collect::<Vec<_>>(), "ops": ops}));
    c.distinct(&(xs.len(), xs[0].to_bits(), ops.len(), ops.first().map(|s| s.len())));
}
