//! C07 — Rigid alignment recovers a known displacement and reports honest residuals.
//!
//! Oracles: (a) known displacement inside a calibrated basin; (b) residual recomputation with the
//! returned transform; (c) objective not larger than at the starting guess; (d) an offline checker
//! over the hooked Levenberg–Marquardt event log (set_params / residuals / jacobian).

use crate::gen::{self, RawMesh};
use crate::oracle::{self, U};
use crate::report::{guard, Ctx};
use crate::{Spec, Stream};
use engeom::common::points::mean_point;
use engeom::common::DistMode;
use engeom::geom2::align2::{points_to_curve, RcParams2};
use engeom::geom3::align3::{points_to_mesh, RcParams3};
use engeom::verif_hooks::{self, Event, EventKind};
use engeom::{Curve2, Iso2, Iso3, Mesh, Point2, Point3, Vector2, Vector3};
use parry3d_f64::na::{Vector3 as V3, Vector6};
use serde_json::json;
use std::f64::consts::{PI, TAU};

// Basins (fractions of the reference size / radians).  Calibrated on the unchanged tree: see
// DESIGN.md section 3 / C07; the values used here are half of the largest region in which every
// calibration run converged.
const B2_T: f64 = 0.02;
const B2_R: f64 = 3.0 * PI / 180.0;
const B3_T: f64 = 0.03;
const B3_R: f64 = 6.0 * PI / 180.0;

/// calibration aid only: VMON_C07_BASIN multiplies the basin (default 1)
fn basin_mult() -> f64 {
    std::env::var("VMON_C07_BASIN").ok().and_then(|s| s.parse().ok()).unwrap_or(1.0)
}

pub fn spec() -> Spec {
    Spec {
        id: "C07",
        rule: "2D references: asymmetric closed polygons (5-12 vertices), open L/Z shapes, J shapes (arc + tail); 3D references: non-cubic boxes, L-blocks (two boxes), wedges; \
               30-300 sample points drawn by the harness over all features; displacement and starting guess each within half the calibrated basin; both DistMode values; \
               out-of-basin cases (up to 60 degrees / 50 %) judged on the honesty clauses only. \
               Non-trivial = an alignment that returned Ok with a non-identity displacement; distinct = hash(reference fingerprint, displacement bits, mode).",
        assumptions: &[
            "basin: 2D translation <= 2% of size and rotation <= 3 deg (so that a point 6% of the extent away from a corner cannot change edges); 3D 3% and 6 deg; split between displacement and starting guess",
            "recovery tolerance: 1e-6*size (2D, 3D ToPlane), 1e-4*size (3D ToPoint)",
            "residual recomputation uses the public closest-point queries at exactly the returned transform (3D ToPoint additionally against the harness's brute-force distance)",
            "event-log Jacobian rows are compared with central differences only where the closest element is stable and the residual is away from its kink",
        ],
        streams: vec![
            Stream { name: "align2", quick: 20_000, thorough: 600_000, run: run2 },
            Stream { name: "align3", quick: 8000, thorough: 250_000, run: run3 },
            Stream { name: "align2-symmetric", quick: 2000, thorough: 60_000, run: run2_symmetric },
        ],
        required: vec![
            ("points_to_curve :: in-basin recovers the displacement", 1000),
            ("points_to_curve :: residual i == distance of point i moved by the returned transform", 1000),
            ("points_to_curve trace", 1000),
            ("points_to_mesh :: in-basin recovers the displacement", 500),
            ("points_to_mesh :: residual i == distance of point i moved by the returned transform", 500),
            ("points_to_mesh trace", 500),
        ],
        exhaustive_note: None,
    }
}

// ---------------------------------------------------------------------------------------------
// 2D

fn ref_shape2(c: &mut Ctx) -> (Vec<Point2>, bool, &'static str) {
    let r = &mut c.rng;
    match r.int(0, 3) {
        0 | 1 => {
            let n = r.int(5, 12);
            let ph = r.range(0.0, TAU);
            let v = (0..n)
                .map(|i| {
                    let t = ph + TAU * (i as f64 + r.range(-0.25, 0.25)) / n as f64;
                    let rad = r.range(0.6, 1.4);
                    Point2::new(rad * t.cos(), 0.7 * rad * t.sin())
                })
                .collect();
            (v, true, "polygon")
        }
        2 => {
            let (a, b, cc) = (r.range(0.6, 1.5), r.range(0.5, 1.2), r.range(0.4, 1.0));
            if r.bool() {
                (vec![Point2::new(0.0, 0.0), Point2::new(a, 0.0), Point2::new(a, b)], false, "L")
            } else {
                (vec![Point2::new(0.0, 0.0), Point2::new(a, 0.0), Point2::new(a, b), Point2::new(a + cc, b)], false, "Z")
            }
        }
        _ => {
            // J: circular arc followed by a straight tail
            let rad = r.range(0.4, 0.8);
            let sweep = r.range(1.2, 3.0);
            let m = r.int(12, 40);
            let mut v: Vec<Point2> = (0..=m).map(|i| {
                let t = sweep * i as f64 / m as f64;
                Point2::new(rad * t.cos(), rad * t.sin())
            }).collect();
            let last = v[v.len() - 1];
            let tan = Vector2::new(-(sweep).sin(), sweep.cos());
            v.push(last + tan * r.range(0.6, 1.2));
            (v, false, "J")
        }
    }
}

fn sample_curve(c: &mut Ctx, v: &[Point2], closed: bool, n: usize) -> Vec<Point2> {
    let mut pts = v.to_vec();
    if closed {
        pts.push(v[0]);
    }
    let m = oracle::PolyModel2::new(&pts);
    let l = m.len();
    // samples keep a margin from the corners: beyond a corner the "surface" normal is a tie between
    // two edges, which is outside any sensible convergence basin
    let margin = 0.06 * m.extent();
    let mut out = Vec::new();
    let mut tries = 0;
    while out.len() < n && tries < 50 * n {
        tries += 1;
        let p = m.at(l * c.rng.f());
        let near_corner = (1..pts.len() - 1).any(|k| (pts[k] - p).norm() < margin) || (closed && (pts[0] - p).norm() < margin);
        let near_end = !closed && ((pts[0] - p).norm() < margin || (pts[pts.len() - 1] - p).norm() < margin);
        let is_j = pts.len() > 8 && !closed; // the arc of a J has many shallow vertices: only its ends and the junction matter
        if (near_corner && !is_j) || near_end {
            continue;
        }
        out.push(p);
    }
    out
}

fn residuals2(curve: &Curve2, t: &Iso2, pts: &[Point2]) -> Vec<f64> {
    pts.iter()
        .map(|p| {
            let m = t * p;
            curve.at_closest_to_point(&m).surface_point().scalar_projection(&m)
        })
        .collect()
}

fn run2(c: &mut Ctx) {
    let (shape, closed, kind) = ref_shape2(c);
    let scale = if c.rng.chance(0.3) { c.rng.log_range(0.05, 50.0) } else { 1.0 };
    let pose = gen::iso2(&mut c.rng, 5.0 * scale);
    let refp: Vec<Point2> = shape.iter().map(|p| pose * Point2::new(p.x * scale, p.y * scale)).collect();
    let Ok(Ok(curve)) = guard(|| Curve2::from_points(&refp, 1e-9 * scale, closed)) else { return };
    let model = oracle::PolyModel2::new(curve.points());
    let size = model.extent();
    let n = c.rng.int(30, 200);
    let samples = sample_curve(c, &refp, closed, n);
    // "enough features to fix all degrees of freedom": the samples (not only the shape) must
    // constrain two translations and the rotation, e.g. a Z whose middle bar received no sample is
    // two parallel lines and lets the points slide.  The normal equations of the point-to-line
    // problem at the true pose must be well conditioned.
    {
        use parry2d_f64::na::Matrix3;
        let ctr0 = mean_point(&samples);
        let mut h = Matrix3::<f64>::zeros();
        for p in &samples {
            let (_, e) = oracle::brute_poly2(model.v.as_slice(), p);
            let ed = (model.v[e + 1] - model.v[e]).normalize();
            let nrm = Vector2::new(-ed.y, ed.x);
            let r = (p - ctr0) / size;
            let row = parry2d_f64::na::Vector3::new(nrm.x, nrm.y, r.x * nrm.y - r.y * nrm.x);
            h += row * row.transpose();
        }
        let ev = h.symmetric_eigenvalues();
        let (lo, hi) = (ev.iter().cloned().fold(f64::INFINITY, f64::min), ev.iter().cloned().fold(0.0, f64::max));
        if !(lo > 1e-3 * hi) {
            c.note("align2: sample set does not constrain all degrees of freedom (case not used)");
            return;
        }
    }
    let in_basin = c.rng.chance(0.8);
    let (tb, rb) = if in_basin { (B2_T * size * 0.5 * basin_mult(), B2_R * 0.5 * basin_mult()) } else { (0.5 * size, PI / 3.0) };
    let ctr = mean_point(&samples);
    // displacement about the centroid of the samples so that translation and rotation are decoupled
    let mk = |c: &mut Ctx, tb: f64, rb: f64| -> Iso2 {
        let rot = Iso2::rotation(c.rng.range(-rb, rb));
        let about = Iso2::translation(ctr.x, ctr.y) * rot * Iso2::translation(-ctr.x, -ctr.y);
        Iso2::translation(c.rng.range(-tb, tb), c.rng.range(-tb, tb)) * about
    };
    let mut d = mk(c, tb, rb);
    let mut g = if c.rng.chance(0.4) { Iso2::identity() } else { mk(c, tb, rb) };
    if in_basin && c.rng.chance(0.3) {
        // large starting pose, displacement = its inverse up to an in-basin error
        let ang = *c.rng.pick(&[PI, -PI, PI / 2.0, -PI / 2.0, 3.0, -3.0, 1.0, 2.5]) + if c.rng.bool() { 0.0 } else { c.rng.range(-0.2, 0.2) };
        let big = Iso2::new(Vector2::new(c.rng.range(-2.0, 2.0) * size, c.rng.range(-2.0, 2.0) * size), ang);
        let small = d;
        g = big;
        d = big.inverse() * small;
        c.note("align2 pose/guess-is-large-pose");
    }
    let moved: Vec<Point2> = samples.iter().map(|p| d * p).collect();
    c.family(&format!("align2/{kind}/{}", if in_basin { "in-basin" } else { "out-of-basin" }));
    c.set_case(json!({"reference": gen::j2(&refp), "closed": closed, "points": gen::j2(&moved), "displacement": gen::jiso2(&d), "initial": gen::jiso2(&g), "in_basin": in_basin}));
    let class = kind;
    let api = "points_to_curve";

    verif_hooks::set_logging(true);
    let r = guard(|| points_to_curve(&moved, &curve, &g));
    let log = verif_hooks::take_log();
    verif_hooks::set_logging(false);
    c.eval();
    let res = match r {
        Err(p) => {
            c.check(api, "no-panic", class, false, || format!("{} {}", p.sig(), p.msg));
            return;
        }
        Ok(x) => x,
    };
    let al = match res {
        Err(e) => {
            if in_basin {
                c.check(api, "in-basin succeeds", class, false, || format!("Err({e})"));
            } else {
                c.note("out-of-basin Err (not judged)");
            }
            return;
        }
        Ok(a) => a,
    };
    let t = *al.transform();
    // (a)
    if in_basin {
        let err = samples.iter().zip(moved.iter()).map(|(p, q)| (t * q - p).norm()).fold(0.0, f64::max);
        if c.verbose {
            let comp = t * d;
            let rms = |t: &Iso2| (residuals2(&curve, t, &moved).iter().map(|x| x * x).sum::<f64>() / moved.len() as f64).sqrt();
            println!("  returned o displacement: angle {:e} translation {:?}; rms at start {:e}, at the returned transform {:e}, at the true inverse {:e}; {} log events; size {size:e}", comp.rotation.angle(), comp.translation.vector, rms(&g), rms(&t), rms(&d.inverse()), log.len());
        }
        c.close(api, "in-basin recovers the displacement", class, err / size, 0.0, 1e-6);
    }
    // (b)
    let rr = residuals2(&curve, &t, &moved);
    let got = al.residuals().to_vec();
    if c.check(api, "one residual per point", class, got.len() == moved.len(), || format!("{} residuals for {} points", got.len(), moved.len())) {
        let worst = rr.iter().zip(got.iter()).map(|(a, b)| (a - b).abs()).fold(0.0, f64::max);
        c.close(api, "residual i == distance of point i moved by the returned transform", class, worst / size, 0.0, 1e-9);
        let mean = got.iter().sum::<f64>() / got.len() as f64;
        c.close(api, "avg_residual is the mean", class, al.avg_residual(), mean, 1e-12 * size);
    }
    // (c)
    // the objective at the starting guess is taken from the solver's first (verified, see the trace
    // checker) residual evaluation: where a point is closest to a corner the station normal is a
    // tie between two edges, so an independent re-evaluation may legitimately differ
    if let Some(first) = log.iter().find(|e| e.kind == EventKind::Residuals) {
        let s0 = first.values.iter().map(|x| x * x).sum::<f64>();
        let s1 = got.iter().map(|x| x * x).sum::<f64>();
        c.check(api, "final sum of squares <= at the starting guess", class, s1 <= s0 * (1.0 + 1e-9) + 1e-18 * size * size, || format!("final {s1:e} > initial {s0:e}"));
    }

    // (d) trace
    check_trace2(c, &log, &curve, &moved, &g, &t, size, class);
    if d != Iso2::identity() {
        c.distinct(&(refp.len(), refp[0].x.to_bits(), d.translation.vector.x.to_bits(), g.translation.vector.x.to_bits()));
    }
}

/// Point-symmetric configurations: a rectangle centred at the origin, samples closed under both
/// mirror images, a pure translation.  The signed residuals then cancel exactly in the mean although
/// every point is off the curve — a "nothing to do" shortcut keyed on the mean would return the
/// starting guess.
fn run2_symmetric(c: &mut Ctx) {
    let (a, b) = (c.rng.range(0.5, 2.0), c.rng.range(0.5, 2.0));
    let scale = if c.rng.chance(0.3) { c.rng.log_range(0.05, 50.0) } else { 1.0 };
    let (a, b) = (a * scale, b * scale);
    let refp = vec![Point2::new(-a, -b), Point2::new(a, -b), Point2::new(a, b), Point2::new(-a, b)];
    let Ok(Ok(curve)) = guard(|| Curve2::from_points(&refp, 1e-9 * scale, true)) else { return };
    let size = 2.0 * (a * a + b * b).sqrt();
    let k = c.rng.int(3, 20);
    let mut samples = Vec::new();
    for _ in 0..k {
        let x = a * c.rng.range(0.05, 0.8);
        let y = b * c.rng.range(0.05, 0.8);
        for (sx, sy) in [(1.0, 1.0), (-1.0, 1.0), (1.0, -1.0), (-1.0, -1.0)] {
            samples.push(Point2::new(sx * x, sy * b)); // top and bottom edges
            samples.push(Point2::new(sx * a, sy * y)); // right and left edges
        }
    }
    let tb = B2_T * size * 0.5 * basin_mult();
    let d = Iso2::translation(c.rng.range(-tb, tb), c.rng.range(-tb, tb));
    let g = Iso2::identity();
    let moved: Vec<Point2> = samples.iter().map(|p| d * p).collect();
    c.family("align2/symmetric-rectangle/in-basin");
    c.set_case(json!({"reference": gen::j2(&refp), "closed": true, "points": gen::j2(&moved), "displacement": gen::jiso2(&d), "initial": gen::jiso2(&g)}));
    let class = "symmetric-rectangle";
    let api = "points_to_curve";
    verif_hooks::set_logging(true);
    let r = guard(|| points_to_curve(&moved, &curve, &g));
    let log = verif_hooks::take_log();
    verif_hooks::set_logging(false);
    c.eval();
    let al = match r {
        Err(p) => {
            c.check(api, "no-panic", class, false, || format!("{} {}", p.sig(), p.msg));
            return;
        }
        Ok(Err(e)) => {
            c.check(api, "in-basin succeeds", class, false, || format!("Err({e})"));
            return;
        }
        Ok(Ok(a)) => a,
    };
    let t = *al.transform();
    let err = samples.iter().zip(moved.iter()).map(|(p, q)| (t * q - p).norm()).fold(0.0, f64::max);
    c.close(api, "in-basin recovers the displacement", class, err / size, 0.0, 1e-6);
    let rr = residuals2(&curve, &t, &moved);
    let got = al.residuals().to_vec();
    if c.check(api, "one residual per point", class, got.len() == moved.len(), || format!("{} residuals for {} points", got.len(), moved.len())) {
        let worst = rr.iter().zip(got.iter()).map(|(a, b)| (a - b).abs()).fold(0.0, f64::max);
        c.close(api, "residual i == distance of point i moved by the returned transform", class, worst / size, 0.0, 1e-9);
    }
    check_trace2(c, &log, &curve, &moved, &g, &t, size, class);
    c.distinct(&(k, a.to_bits(), d.translation.vector.x.to_bits()));
}

#[allow(clippy::too_many_arguments)]
fn check_trace2(c: &mut Ctx, log: &[Event], curve: &Curve2, pts: &[Point2], initial: &Iso2, returned: &Iso2, size: f64, class: &str) {
    let api = "points_to_curve trace";
    let mp = mean_point(pts);
    let mut prm = RcParams2::from_initial(initial, &mp);
    let x0 = *prm.x();
    let mut last_x: Vec<f64> = x0.as_slice().to_vec();
    let n = pts.len();
    c.note_n("trace events (2D)", log.len() as u64);
    if !c.check(api, "log not empty", class, !log.is_empty(), || "no events".into()) {
        return;
    }
    let mut jac_checked = 0;
    let n_jac = log.iter().filter(|e| e.kind == EventKind::Jacobian).count();
    let mut jac_seen = 0;
    for ev in log {
        match ev.kind {
            EventKind::SetParams => {
                last_x = ev.x.clone();
                c.note("trace/set_params");
            }
            EventKind::Residuals | EventKind::Jacobian => {
                let same = ev.x == last_x;
                if !c.check(api, "evaluation at the latest set_params", class, same, || format!("event x {:?} but latest set_params {:?}", ev.x, last_x)) {
                    continue;
                }
                let x = V3::new(ev.x[0], ev.x[1], ev.x[2]);
                prm.set(&x);
                let t = *prm.transform();
                if ev.kind == EventKind::Residuals {
                    c.note("trace/residuals");
                    let rr = residuals2(curve, &t, pts);
                    if c.check(api, "residual vector length", class, ev.values.len() == n, || format!("{} vs {n}", ev.values.len())) {
                        let worst = rr.iter().zip(ev.values.iter()).map(|(a, b)| (a - b).abs()).fold(0.0, f64::max);
                        c.close(api, "logged residuals are the residuals at the logged parameters", class, worst / size, 0.0, 1e-9);
                    }
                } else {
                    c.note("trace/jacobian");
                    jac_seen += 1;
                    if ev.values.len() != 3 * n {
                        c.check(api, "jacobian size", class, false, || format!("{} vs {}", ev.values.len(), 3 * n));
                        continue;
                    }
                    // the first two Jacobians of the run (later ones are evaluated at convergence, where
                    // the residuals sit on their kink), up to 12 rows each
                    let _ = n_jac;
                    if jac_seen > 2 {
                        continue;
                    }
                    let rows: Vec<usize> = (0..12).map(|_| c.rng.int(0, n - 1)).collect();
                    for &i in &rows {
                        let p = pts[i];
                        let eval = |xx: &V3<f64>| -> (f64, usize) {
                            let mut q = prm.clone();
                            q.set(xx);
                            let m = q.transform() * p;
                            let st = curve.at_closest_to_point(&m);
                            (st.surface_point().scalar_projection(&m), st.index())
                        };
                        let (r_mid, e_mid) = eval(&x);
                        let lever = ((t * p) - prm.current_rc()).norm();
                        // a solver that wandered far away from the reference (out-of-basin runs) works
                        // with coordinates whose rounding swamps the finite differences
                        let far = {
                            let m = t * p;
                            (curve.at_closest_to_point(&m).point() - m).norm()
                        };
                        if far > 10.0 * size || lever > 100.0 * size {
                            c.skip("points_to_curve trace :: jacobian row is the derivative of the residual");
                            continue;
                        }
                        let mut stable = true;
                        let mut fd = [0.0; 3];
                        for k in 0..3 {
                            let h = if k < 2 { 1e-6 * size } else { 1e-6 };
                            let mut xp = x;
                            xp[k] += h;
                            let mut xm = x;
                            xm[k] -= h;
                            let (rp, ep) = eval(&xp);
                            let (rm, em) = eval(&xm);
                            if ep != e_mid || em != e_mid {
                                stable = false;
                            }
                            fd[k] = (rp - rm) / (2.0 * h);
                        }
                        let _ = r_mid;
                        if !stable {
                            c.skip("points_to_curve trace :: jacobian row is the derivative of the residual");
                            continue;
                        }
                        let mut worst = 0.0f64;
                        for k in 0..3 {
                            let tol = if k < 2 { 1e-5 } else { 1e-5 * (size + lever) };
                            worst = worst.max((ev.values[3 * i + k] - fd[k]).abs() / tol);
                        }
                        jac_checked += 1;
                        if worst > 1.0 && c.verbose {
                            let m = t * p;
                            let st = curve.at_closest_to_point(&m);
                            println!("  row {i}: p={p:?} m={m:?} station idx={} frac={:e} point={:?} normal={:?} rc={:?} r={r_mid:e} lever={lever:e} x={x:?}", st.index(), st.fraction(), st.point(), st.normal(), prm.current_rc());
                        }
                        c.check(api, "jacobian row is the derivative of the residual", class, worst <= 1.0, || {
                            format!("row {i}: logged {:?} finite differences {:?}", &ev.values[3 * i..3 * i + 3], fd)
                        });
                    }
                }
            }
        }
    }
    let _ = jac_checked;
    // the returned transform is the transform at the last parameters handed to the problem
    let xl = V3::new(last_x[0], last_x[1], last_x[2]);
    prm.set(&xl);
    let d = (prm.transform().to_homogeneous() - returned.to_homogeneous()).norm();
    c.close(api, "returned transform == transform at the final parameters", class, d, 0.0, 1e-12 * (1.0 + size + returned.translation.vector.norm()));
}

// ---------------------------------------------------------------------------------------------
// 3D

fn concat(a: &RawMesh, b: &RawMesh, name: &'static str) -> RawMesh {
    let mut v = a.v.clone();
    let off = v.len() as u32;
    v.extend(b.v.iter().cloned());
    let mut f = a.f.clone();
    f.extend(b.f.iter().map(|t| [t[0] + off, t[1] + off, t[2] + off]));
    RawMesh { name, v, f, closed: true, convex: false }
}

fn ref_shape3(c: &mut Ctx) -> RawMesh {
    let r = &mut c.rng;
    match r.int(0, 2) {
        0 => gen::mesh_box(r.range(0.8, 1.6), r.range(0.5, 0.9), r.range(0.4, 0.6)),
        1 => {
            let a = gen::mesh_box(1.2, 0.7, 0.45);
            let b = gen::mesh_box(0.5, 0.4, 0.5).transformed(&Iso3::translation(0.3, 0.1, 0.4));
            concat(&a, &b, "L-block")
        }
        _ => {
            // wedge: triangular prism stretched to unequal sides
            let mut m = gen::mesh_prism(3, 0.6, r.range(0.6, 1.0), true);
            let sx = r.range(1.0, 1.8);
            for p in &mut m.v {
                p.x *= sx;
            }
            m.name = "wedge";
            m
        }
    }
}

/// area weighted surface samples drawn by the harness (replayable, unlike Mesh::sample_uniform)
fn sample_mesh(c: &mut Ctx, m: &RawMesh, n: usize) -> Vec<Point3> {
    let margin = 0.05 * m.extent();
    let areas: Vec<f64> = m.f.iter().map(|t| 0.5 * (m.v[t[1] as usize] - m.v[t[0] as usize]).cross(&(m.v[t[2] as usize] - m.v[t[0] as usize])).norm()).collect();
    let total: f64 = areas.iter().sum();
    (0..4 * n)
        .map(|_| {
            let mut x = c.rng.f() * total;
            let mut fi = 0;
            for (i, a) in areas.iter().enumerate() {
                fi = i;
                if x < *a {
                    break;
                }
                x -= a;
            }
            let t = m.f[fi];
            let (mut u, mut w) = (c.rng.f(), c.rng.f());
            if u + w > 1.0 {
                u = 1.0 - u;
                w = 1.0 - w;
            }
            let a = m.v[t[0] as usize];
            (fi, a + (m.v[t[1] as usize] - a) * u + (m.v[t[2] as usize] - a) * w)
        })
        .filter(|(fi, p)| {
            // keep a margin from every face that is not coplanar with the sample's own face
            let t = m.f[*fi];
            let nf = oracle::tri_normal(&m.v[t[0] as usize], &m.v[t[1] as usize], &m.v[t[2] as usize]).unwrap();
            m.f.iter().all(|g| {
                let (x, y, z) = (m.v[g[0] as usize], m.v[g[1] as usize], m.v[g[2] as usize]);
                let ng = oracle::tri_normal(&x, &y, &z).unwrap();
                ng.dot(&nf).abs() > 1.0 - 1e-9 && (ng.dot(&(p - x))).abs() < 1e-9 * margin || oracle::dist_tri(&x, &y, &z, p) >= margin
            })
        })
        .map(|(_, p)| p)
        .collect()
}

fn residuals3(mesh: &Mesh, t: &Iso3, pts: &[Point3], point_mode: bool) -> Vec<f64> {
    pts.iter()
        .map(|p| {
            let m = t * p;
            let s = mesh.surf_closest_to(&m);
            if point_mode {
                (m - s.point).norm()
            } else {
                s.scalar_projection(&m).abs()
            }
        })
        .collect()
}

fn run3(c: &mut Ctx) {
    let shape = ref_shape3(c);
    let scale = if c.rng.chance(0.3) { c.rng.log_range(0.05, 50.0) } else { 1.0 };
    let pose = gen::iso3(&mut c.rng, 5.0 * scale);
    let raw = shape.scaled(scale).transformed(&pose);
    let mesh = raw.to_mesh(false);
    let size = raw.extent();
    let n = c.rng.int(40, 300);
    let samples = sample_mesh(c, &raw, n);
    // every face direction of the reference must carry some samples, otherwise a degree of freedom
    // is not fixed by the data and the case is outside the property's domain
    {
        let mut dirs: Vec<(Vector3, usize)> = Vec::new();
        for p in &samples {
            let (_, fi) = oracle::brute_mesh(&raw.v, &raw.f, p);
            let t = raw.f[fi];
            let nn = oracle::tri_normal(&raw.v[t[0] as usize], &raw.v[t[1] as usize], &raw.v[t[2] as usize]).unwrap();
            match dirs.iter_mut().find(|d| d.0.dot(&nn) > 1.0 - 1e-9) {
                Some(d) => d.1 += 1,
                None => dirs.push((nn, 1)),
            }
        }
        let need = if raw.name == "wedge" { 5 } else { 6 };
        if dirs.iter().filter(|d| d.1 >= 4).count() < need {
            c.note("reference not covered by the samples (case dropped)");
            return;
        }
    }
    let point_mode = c.rng.bool();
    let in_basin = c.rng.chance(0.8);
    let (tb, rb) = if in_basin { (B3_T * size * 0.5 * basin_mult(), B3_R * 0.5 * basin_mult()) } else { (0.5 * size, PI / 3.0) };
    let ctr = mean_point(&samples);
    let mk = |c: &mut Ctx, tb: f64, rb: f64| -> Iso3 {
        let axis = gen::unit3(&mut c.rng);
        let rot = Iso3::new(Vector3::zeros(), axis * c.rng.range(-rb, rb));
        let about = Iso3::translation(ctr.x, ctr.y, ctr.z) * rot * Iso3::translation(-ctr.x, -ctr.y, -ctr.z);
        Iso3::translation(c.rng.range(-tb, tb), c.rng.range(-tb, tb), c.rng.range(-tb, tb)) * about
    };
    let mut d = mk(c, tb, rb);
    let mut g = if c.rng.chance(0.4) { Iso3::identity() } else { mk(c, tb, rb) };
    let mut pose_kind = "small";
    if in_basin && c.rng.chance(0.35) {
        // The starting guess is a large pose (any Euler triple, including pitch exactly +-90 degrees
        // with non-zero roll and yaw) and the displacement is its inverse up to an in-basin error:
        // the guess is "in the basin" because guess * displacement is small.
        use parry3d_f64::na::UnitQuaternion;
        let (a, cc) = (c.rng.range(-PI, PI), c.rng.range(-PI, PI));
        let b = match c.rng.int(0, 5) {
            0 => -PI / 2.0,
            1 => PI / 2.0,
            2 => -PI / 2.0 + c.rng.sign() * c.rng.log_range(1e-12, 1e-3),
            3 => PI / 2.0 + c.rng.sign() * c.rng.log_range(1e-12, 1e-3),
            _ => c.rng.range(-PI / 2.0, PI / 2.0),
        };
        let q = UnitQuaternion::from_axis_angle(&Vector3::x_axis(), a) * UnitQuaternion::from_axis_angle(&Vector3::y_axis(), b) * UnitQuaternion::from_axis_angle(&Vector3::z_axis(), cc);
        let big = Iso3::from_parts(parry3d_f64::na::Translation3::new(c.rng.range(-2.0, 2.0) * size, c.rng.range(-2.0, 2.0) * size, c.rng.range(-2.0, 2.0) * size), q);
        // guess = big exactly (so that the special pitch reaches the library unperturbed)
        let small = d;
        g = big;
        d = big.inverse() * small;
        pose_kind = "guess-is-large-pose";
    }
    let moved: Vec<Point3> = samples.iter().map(|p| d * p).collect();
    c.note(&format!("align3 pose/{pose_kind}"));
    let mode_name = if point_mode { "ToPoint" } else { "ToPlane" };
    c.family(&format!("align3/{}/{mode_name}/{}", raw.name, if in_basin { "in-basin" } else { "out-of-basin" }));
    c.set_case(json!({"reference": raw.json(), "points": gen::j3(&moved), "displacement": gen::jiso3(&d), "initial": gen::jiso3(&g), "mode": mode_name, "in_basin": in_basin}));
    let class = format!("{}/{mode_name}", raw.name);
    let api = "points_to_mesh";

    verif_hooks::set_logging(true);
    let r = guard(|| points_to_mesh(&moved, &mesh, &g, if point_mode { DistMode::ToPoint } else { DistMode::ToPlane }));
    let log = verif_hooks::take_log();
    verif_hooks::set_logging(false);
    c.eval();
    let res = match r {
        Err(p) => {
            c.check(api, "no-panic", &class, false, || format!("{} {}", p.sig(), p.msg));
            return;
        }
        Ok(x) => x,
    };
    let al = match res {
        Err(e) => {
            if in_basin {
                c.check(api, "in-basin succeeds", &class, false, || format!("Err({e})"));
            } else {
                c.note("out-of-basin Err (not judged)");
            }
            return;
        }
        Ok(a) => a,
    };
    let t = *al.transform();
    if in_basin {
        let err = samples.iter().zip(moved.iter()).map(|(p, q)| (t * q - p).norm()).fold(0.0, f64::max);
        c.close(api, "in-basin recovers the displacement", &class, err / size, 0.0, if point_mode { 1e-4 } else { 1e-6 });
    }
    let rr = residuals3(&mesh, &t, &moved, point_mode);
    let got = al.residuals().to_vec();
    if c.check(api, "one residual per point", &class, got.len() == moved.len(), || format!("{} residuals for {} points", got.len(), moved.len())) {
        let worst = rr.iter().zip(got.iter()).map(|(a, b)| (a - b).abs()).fold(0.0, f64::max);
        c.close(api, "residual i == distance of point i moved by the returned transform", &class, worst / size, 0.0, 1e-9);
        if point_mode {
            // independent: brute-force distance
            let worst = moved.iter().zip(got.iter()).map(|(p, r)| (oracle::brute_mesh(&raw.v, &raw.f, &(t * p)).0 - r).abs()).fold(0.0, f64::max);
            c.close(api, "point-mode residual == brute-force distance", &class, worst, 0.0, 1e-9 * size + 1e3 * U * raw.offset_norm());
        }
        let mean = got.iter().sum::<f64>() / got.len() as f64;
        c.close(api, "avg_residual is the mean", &class, al.avg_residual(), mean, 1e-12 * size);
    }
    if let Some(first) = log.iter().find(|e| e.kind == EventKind::Residuals) {
        let s0 = first.values.iter().map(|x| x * x).sum::<f64>();
        let s1 = got.iter().map(|x| x * x).sum::<f64>();
        c.check(api, "final sum of squares <= at the starting guess", &class, s1 <= s0 * (1.0 + 1e-9) + 1e-18 * size * size, || format!("final {s1:e} > initial {s0:e}"));
    }

    check_trace3(c, &log, &mesh, &raw, &moved, &g, &t, size, point_mode, &class);
    c.distinct(&(raw.f.len(), raw.v[0].x.to_bits(), d.translation.vector.x.to_bits(), point_mode));
}

#[allow(clippy::too_many_arguments)]
fn check_trace3(c: &mut Ctx, log: &[Event], mesh: &Mesh, raw: &RawMesh, pts: &[Point3], initial: &Iso3, returned: &Iso3, size: f64, point_mode: bool, class: &str) {
    let api = "points_to_mesh trace";
    let mp = mean_point(pts);
    let mut prm = RcParams3::from_initial(initial, &mp);
    let mut last_x: Vec<f64> = prm.x().as_slice().to_vec();
    let n = pts.len();
    if c.verbose {
        println!("  |T(x0) - initial| = {:e}", (prm.transform().to_homogeneous() - initial.to_homogeneous()).norm());
    }
    c.note_n("trace events (3D)", log.len() as u64);
    if !c.check(api, "log not empty", class, !log.is_empty(), || "no events".into()) {
        return;
    }
    let n_jac = log.iter().filter(|e| e.kind == EventKind::Jacobian).count();
    let mut jac_seen = 0;
    let to_x = |v: &[f64]| Vector6::new(v[0], v[1], v[2], v[3], v[4], v[5]);
    for ev in log {
        match ev.kind {
            EventKind::SetParams => {
                last_x = ev.x.clone();
                c.note("trace3/set_params");
            }
            EventKind::Residuals | EventKind::Jacobian => {
                if !c.check(api, "evaluation at the latest set_params", class, ev.x == last_x, || format!("event x {:?} but latest set_params {:?}", ev.x, last_x)) {
                    continue;
                }
                let x = to_x(&ev.x);
                prm.set(&x);
                let t = *prm.transform();
                if ev.kind == EventKind::Residuals {
                    c.note("trace3/residuals");
                    if c.verbose {
                        println!("  residuals event: sum of squares {:e} at x {:?}", ev.values.iter().map(|v| v * v).sum::<f64>(), ev.x);
                    }
                    let rr = residuals3(mesh, &t, pts, point_mode);
                    if c.check(api, "residual vector length", class, ev.values.len() == n, || format!("{} vs {n}", ev.values.len())) {
                        let worst = rr.iter().zip(ev.values.iter()).map(|(a, b)| (a - b).abs()).fold(0.0, f64::max);
                        c.close(api, "logged residuals are the residuals at the logged parameters", class, worst / size, 0.0, 1e-9);
                    }
                } else {
                    c.note("trace3/jacobian");
                    jac_seen += 1;
                    if ev.values.len() != 6 * n {
                        c.check(api, "jacobian size", class, false, || format!("{} vs {}", ev.values.len(), 6 * n));
                        continue;
                    }
                    let _ = n_jac;
                    if jac_seen > 2 {
                        continue;
                    }
                    // eight random rows, plus up to eight rows whose closest point is on an edge or a
                    // vertex of the mesh (there the two distance modes have different derivatives)
                    let mut rows: Vec<usize> = (0..8).map(|_| c.rng.int(0, n - 1)).collect();
                    let mut edge_rows = 0;
                    for _ in 0..4 * n.min(64) {
                        if edge_rows >= 8 {
                            break;
                        }
                        let i = c.rng.int(0, n - 1);
                        let m = t * pts[i];
                        let s = mesh.surf_closest_to(&m);
                        let off = m - s.point;
                        // (point mode only: the plane-mode residual at an edge depends on which of the
                        // two faces the closest-point query happens to report)
                        if point_mode && off.norm() > 1e-4 * size && off.normalize().dot(&s.normal).abs() < 1.0 - 1e-6 {
                            rows.push(i);
                            edge_rows += 1;
                        }
                    }
                    for &i in &rows {
                        let p = pts[i];
                        let eval = |xx: &Vector6<f64>| -> (f64, bool) {
                            let mut q = prm.clone();
                            q.set(xx);
                            let m = q.transform() * p;
                            let s = mesh.surf_closest_to(&m);
                            let off = m - s.point;
                            let interior = off.norm() > 0.0 && (off.normalize().dot(&s.normal).abs() > 1.0 - 1e-9);
                            let r = if point_mode { off.norm() } else { s.scalar_projection(&m).abs() };
                            (r, interior)
                        };
                        let (r_mid, int_mid) = eval(&x);
                        if r_mid < 1e-4 * size || r_mid > 10.0 * size || (!point_mode && !int_mid) {
                            // residual on (or next to) its kink at zero distance, or a plane-mode
                            // residual at an edge (ambiguous face)
                            c.note("trace3/jacobian row not eligible for finite differences");
                            continue;
                        }
                        let lever = ((t * p) - prm.current_rc()).norm();
                        // central differences at two step sizes: the row is eligible when they agree,
                        // i.e. when the residual is smooth around x (same closest feature on both sides)
                        let mut smooth = true;
                        let mut fd = [0.0; 6];
                        for k in 0..6 {
                            let h = if k < 3 { 1e-6 * size } else { 1e-6 };
                            let tol = if k < 3 { 1e-5 } else { 1e-5 * (size + lever) };
                            let d = |h: f64| {
                                let mut xp = x;
                                xp[k] += h;
                                let mut xm = x;
                                xm[k] -= h;
                                (eval(&xp).0 - eval(&xm).0) / (2.0 * h)
                            };
                            let (d1, d2) = (d(h), d(4.0 * h));
                            if (d1 - d2).abs() > 0.2 * tol {
                                smooth = false;
                            }
                            fd[k] = d1;
                        }
                        if !smooth {
                            c.skip("points_to_mesh trace :: jacobian row is the derivative of the residual");
                            continue;
                        }
                        c.note(if int_mid { "trace3/jacobian row judged (closest point inside a face)" } else { "trace3/jacobian row judged (closest point on an edge or vertex)" });
                        let mut worst = 0.0f64;
                        for k in 0..6 {
                            let tol = if k < 3 { 1e-5 } else { 1e-5 * (size + lever) };
                            worst = worst.max((ev.values[6 * i + k] - fd[k]).abs() / tol);
                        }
                        c.check(api, "jacobian row is the derivative of the residual", class, worst <= 1.0, || {
                            format!("row {i}: logged {:?} finite differences {:?}", &ev.values[6 * i..6 * i + 6], fd)
                        });
                    }
                }
            }
        }
    }
    prm.set(&to_x(&last_x));
    let d = (prm.transform().to_homogeneous() - returned.to_homogeneous()).norm();
    c.close(api, "returned transform == transform at the final parameters", class, d, 0.0, 1e-12 * (1.0 + size + returned.translation.vector.norm()));
}
