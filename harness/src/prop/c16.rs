//! C16 — Deviations equal signed distance and aggregates track their contents.
//!
//! Oracles: brute-force closest distance and side-of-normal for deviations; plain `Vec` models
//! driven by random call histories for the deviation set and the point cloud; the defining rule of
//! the breakpoint table for tolerance maps.

use crate::gen;
use crate::oracle::{self, closest_on_seg2, closest_on_tri, dist_tri, tri_normal, PolyModel2, U};
use crate::report::{guard, Ctx};
use crate::rng::{next_down, next_up};
use crate::{Spec, Stream};
use engeom::common::{DiscreteDomain, DistMode, Interval};
use engeom::metrology::line_profiles::{line_surface_deviations, point_curve2_deviation};
use engeom::metrology::{ConstantTolMap, DiscreteDomainTolMap, Distance2, Distance3, Measurement, SurfaceDeviation2, SurfaceDeviationSet2, Tolerance, ToleranceMap};
use engeom::{Curve2, Point2, Point3, PointCloud, PointCloudFeatures, SurfacePoint2, UnitVec2, UnitVec3, Vector2};
use serde_json::{json, Value};

pub fn spec() -> Spec {
    Spec {
        id: "C16",
        rule: "nominal curves/meshes with measured points on both sides, on the entity (the 1e-6 coincidence branch), at corners and beyond open ends; Distance with and without explicit direction; \
               histories (length 0..200) of SurfaceDeviationSet::{new, push, push_new} with ties, equal extremes, all-negative and all-positive values; \
               histories of PointCloud::{try_new, empty, append, merge, create_from_indices, transform} with consistent and inconsistent normal/colour presence and length mismatches; \
               breakpoint tables (1..20 strictly increasing breakpoints) queried at, between, one ulp around and beyond both ends, and the empty table. \
               Non-trivial = a history of >= 3 operations or a measured point farther than 1e-6 from the nominal; distinct = hash of the input / history bits.",
        assumptions: &[
            "sign of a curve deviation is judged where the side is unambiguous (the closest edges agree on the side by more than 1e-9 of the distance)",
            "below the library's documented absolute coincidence threshold (1e-6) the deviation is judged only as |value| <= distance",
            "tolerance map: for x below the first breakpoint no breakpoint is 'not above x', so no zone applies (None)",
        ],
        streams: vec![
            Stream { name: "curve-deviation", quick: 30_000, thorough: 1_000_000, run: run_curve },
            Stream { name: "mesh-deviation", quick: 10_000, thorough: 300_000, run: run_mesh },
            Stream { name: "distance", quick: 100_000, thorough: 5_000_000, run: run_distance },
            Stream { name: "deviation-set", quick: 60_000, thorough: 2_000_000, run: run_devset },
            Stream { name: "point-cloud", quick: 60_000, thorough: 2_000_000, run: run_cloud },
            Stream { name: "tolerance-map", quick: 100_000, thorough: 5_000_000, run: run_tolmap },
        ],
        required: vec![
            ("point_curve2_deviation :: |deviation| == closest distance", 50_000),
            ("point_curve2_deviation :: sign == side of the outward normal", 20_000),
            ("line_surface_deviations", 5000),
            ("Mesh::measure_point_deviation :: point mode", 20_000),
            ("Mesh::measure_point_deviation :: plane mode", 20_000),
            ("Distance", 100_000),
            ("SurfaceDeviationSet", 100_000),
            ("PointCloud", 100_000),
            ("DiscreteDomainTolMap::get", 100_000),
        ],
        exhaustive_note: None,
    }
}

fn run_curve(c: &mut Ctx) {
    let case = gen::curve_case2(&mut c.rng, 80);
    let Ok(Ok(curve)) = guard(|| Curve2::from_points(&case.pts, case.tol, case.force_closed)) else { return };
    c.family(&format!("curve-deviation/{}", case.closure));
    let m = PolyModel2::new(curve.points());
    let n = m.v.len();
    let ext = m.extent().max(1e-300);
    let eps = 1e-9 * ext + 1e3 * U * m.offset();
    let class = if curve.is_closed() { "closed" } else { "open" };
    let mut pts: Vec<Point2> = Vec::new();
    for k in 0..16 {
        let r = &mut c.rng;
        let i = r.int(0, n - 2);
        let (a, b) = (m.v[i], m.v[i + 1]);
        let e = b - a;
        let nrm = Vector2::new(e.y, -e.x).normalize(); // outward = direction rotated by -90 degrees
        let on = a + e * r.f();
        let p = match k % 6 {
            0 => on + nrm * (ext * r.log_range(1e-5, 0.3)),
            1 => on - nrm * (ext * r.log_range(1e-5, 0.3)),
            2 => on + nrm * (r.range(-1.0, 1.0) * 5e-7), // coincidence branch (absolute 1e-6)
            3 => m.v[r.int(0, n - 1)] + gen::unit2(r) * (ext * r.log_range(1e-4, 0.2)), // around a corner
            4 => {
                // beyond an open end
                if r.bool() {
                    m.v[n - 1] + (m.v[n - 1] - m.v[n - 2]).normalize() * (ext * r.range(0.01, 0.3)) + nrm * (ext * r.range(-0.1, 0.1))
                } else {
                    m.v[0] + (m.v[0] - m.v[1]).normalize() * (ext * r.range(0.01, 0.3)) + nrm * (ext * r.range(-0.1, 0.1))
                }
            }
            _ => on,
        };
        pts.push(p);
    }
    c.set_case(json!({"curve": case.json(), "points": gen::j2(&pts)}));
    for p in &pts {
        let (bd, _) = oracle::brute_poly2(&m.v, p);
        let r = guard(|| {
            let st = curve.at_closest_to_point(p);
            let d = point_curve2_deviation(&st, p);
            (d.deviation, d.surface.point, d.surface.normal.into_inner(), d.actual_point())
        });
        c.eval();
        let Ok((dev, sp, sn, actual)) = r else {
            c.check("point_curve2_deviation", "no-panic", class, false, || "panic".into());
            continue;
        };
        c.close("point_curve2_deviation", "reference point is the closest point", class, (p - sp).norm(), bd, eps);
        c.close("point_curve2_deviation", "unit normal", class, sn.norm(), 1.0, 1e-9);
        if bd >= 1e-6 {
            c.close("point_curve2_deviation", "|deviation| == closest distance", class, dev.abs(), bd, eps);
            c.close("point_curve2_deviation", "reference + normal * deviation reconstructs the point", class, (actual - p).norm(), 0.0, eps);
            // side: edges attaining the minimum must agree
            let mut side = 0i32;
            let mut conflict = false;
            for i in 0..n - 1 {
                let (cp, _) = closest_on_seg2(&m.v[i], &m.v[i + 1], p);
                if (cp - p).norm() <= bd + 1e-9 * ext {
                    let e = m.v[i + 1] - m.v[i];
                    let nn = Vector2::new(e.y, -e.x).normalize();
                    let s = (p - cp).dot(&nn);
                    if s.abs() <= 1e-6 * bd {
                        conflict = true;
                    } else if side == 0 {
                        side = if s > 0.0 { 1 } else { -1 };
                    } else if (s > 0.0) != (side > 0) {
                        conflict = true;
                    }
                }
            }
            if conflict || side == 0 {
                c.skip("point_curve2_deviation :: sign == side of the outward normal");
            } else {
                c.check("point_curve2_deviation", "sign == side of the outward normal", class, (dev > 0.0) == (side > 0), || format!("deviation {dev:e} but the point is on the {} side", if side > 0 { "outward" } else { "inward" }));
            }
            c.distinct(&(n, m.v[0].x.to_bits(), p.x.to_bits(), p.y.to_bits()));
        } else {
            c.check("point_curve2_deviation", "coincident |deviation| <= distance", class, dev.abs() <= bd + eps, || format!("|{dev:e}| > {bd:e}"));
        }
    }
    // ---- one entry per point whose station lies in the interval, in order
    let l = curve.length();
    let (mut a, mut b) = (c.rng.range(0.0, l), c.rng.range(0.0, l));
    if a > b {
        std::mem::swap(&mut a, &mut b);
    }
    let iv = if c.rng.chance(0.3) { None } else { Some(Interval::new(a, b)) };
    let r = guard(|| line_surface_deviations(&curve, &pts, iv).iter().map(|d| (d.surface.point, d.deviation)).collect::<Vec<_>>());
    c.eval();
    if let Ok(got) = r {
        let want: Vec<(Point2, f64)> = pts
            .iter()
            .filter_map(|p| {
                let st = curve.at_closest_to_point(p);
                if let Some(i) = iv {
                    if !(st.length_along() >= i.min && st.length_along() <= i.max) {
                        return None;
                    }
                }
                let d = point_curve2_deviation(&st, p);
                Some((d.surface.point, d.deviation))
            })
            .collect();
        c.check("line_surface_deviations", "one entry per point whose station lies in the interval, in order", class, got.len() == want.len() && got.iter().zip(want.iter()).all(|(x, y)| x.0 == y.0 && x.1 == y.1), || {
            format!("{} entries, expected {}", got.len(), want.len())
        });
    } else {
        c.check("line_surface_deviations", "no-panic", class, false, || "panic".into());
    }
}

fn run_mesh(c: &mut Ctx) {
    let raw = gen::random_mesh(&mut c.rng, 300, true);
    c.family(&format!("mesh-deviation/{}", raw.name));
    let mesh = raw.to_mesh(false);
    let ext = raw.extent().max(1e-300);
    let eps = 1e-9 * ext + 1e3 * U * raw.offset_norm();
    let nf = raw.f.len();
    let mut qs = Vec::new();
    for k in 0..10 {
        let r = &mut c.rng;
        let t = raw.f[r.int(0, nf - 1)];
        let (a, b, cc) = (raw.v[t[0] as usize], raw.v[t[1] as usize], raw.v[t[2] as usize]);
        let nn = tri_normal(&a, &b, &cc).unwrap_or(engeom::Vector3::z());
        let (mut u, mut w) = (r.f(), r.f());
        if u + w > 1.0 {
            u = 1.0 - u;
            w = 1.0 - w;
        }
        let on = a + (b - a) * u + (cc - a) * w;
        qs.push(match k % 5 {
            0 => on + nn * (ext * r.log_range(1e-5, 0.2)),
            1 => on - nn * (ext * r.log_range(1e-5, 0.05)),
            2 => a + gen::unit3(r) * (ext * r.log_range(1e-4, 0.2)),
            3 => on + nn * (r.range(-1.0, 1.0) * 5e-7),
            _ => on + gen::unit3(r) * (ext * r.range(0.0, 0.5)),
        });
    }
    c.set_case(json!({"mesh": raw.json(), "points": gen::j3(&qs)}));
    for q in &qs {
        let (bd, _) = oracle::brute_mesh(&raw.v, &raw.f, q);
        for point_mode in [true, false] {
            let r = guard(|| {
                let d = mesh.measure_point_deviation(q, if point_mode { DistMode::ToPoint } else { DistMode::ToPlane });
                (d.a, d.b, d.direction.into_inner(), d.value())
            });
            c.eval();
            let Ok((a, b, dir, val)) = r else {
                c.check("Mesh::measure_point_deviation", "no-panic", "mesh", false, || "panic".into());
                continue;
            };
            c.close("Mesh::measure_point_deviation", "a is a closest point, b is the measured point", "mesh", (q - a).norm() + (b - q).norm(), bd, eps);
            // faces containing the reference point, with their own normals
            let mut normals = Vec::new();
            for t in &raw.f {
                let (x, y, z) = (raw.v[t[0] as usize], raw.v[t[1] as usize], raw.v[t[2] as usize]);
                if dist_tri(&x, &y, &z, &a) <= eps {
                    if let Some(nn) = tri_normal(&x, &y, &z) {
                        normals.push((nn, closest_on_tri(&x, &y, &z, q)));
                    }
                }
            }
            if point_mode {
                if bd >= 1e-6 {
                    c.close("Mesh::measure_point_deviation", "point mode |value| == closest distance", "mesh", val.abs(), bd, eps);
                    c.close("Mesh::measure_point_deviation", "point mode: a + direction * value reconstructs the point", "mesh", (a + dir * val - q).norm(), 0.0, eps);
                    // sign: positive on the outward-normal side (when all faces at the point agree)
                    let sides: Vec<f64> = normals.iter().map(|(nn, _)| nn.dot(&(q - a))).collect();
                    if !sides.is_empty() && sides.iter().all(|s| s.abs() > 1e-6 * bd) && (sides.iter().all(|s| *s > 0.0) || sides.iter().all(|s| *s < 0.0)) {
                        c.check("Mesh::measure_point_deviation", "point mode sign == side of the outward normal", "mesh", (val > 0.0) == (sides[0] > 0.0), || format!("value {val:e}, normal component {:e}", sides[0]));
                    } else {
                        c.skip("Mesh::measure_point_deviation :: point mode sign == side of the outward normal");
                    }
                    c.distinct(&(nf, raw.v[0].x.to_bits(), q.x.to_bits()));
                } else {
                    c.check("Mesh::measure_point_deviation", "point mode coincident |value| <= distance", "mesh", val.abs() <= bd + eps, || format!("|{val:e}| > {bd:e}"));
                }
            } else {
                // plane mode: normal component with respect to a face at the reference point
                let ok = normals.iter().any(|(nn, _)| (nn.dot(&(q - a)) - val).abs() <= eps && (nn - dir).norm() <= 1e-9);
                c.check("Mesh::measure_point_deviation", "plane mode value == normal component of the offset", "mesh", ok, || {
                    format!("value {val:e}; normal components at the reference point: {:?}", normals.iter().map(|(nn, _)| nn.dot(&(q - a))).collect::<Vec<_>>())
                });
            }
        }
    }
}

fn run_distance(c: &mut Ctx) {
    let s = c.rng.log_range(1e-3, 1e3);
    let a = Point3::new(c.rng.range(-s, s), c.rng.range(-s, s), c.rng.range(-s, s));
    let b = if c.rng.chance(0.05) { a + gen::unit3(&mut c.rng) * (s * 1e-9) } else { Point3::new(c.rng.range(-s, s), c.rng.range(-s, s), c.rng.range(-s, s)) };
    let dir = if c.rng.bool() { Some(UnitVec3::new_normalize(gen::unit3(&mut c.rng))) } else { None };
    c.family(&format!("distance/{}", if dir.is_some() { "explicit-direction" } else { "default-direction" }));
    c.set_case(json!({"a": [a.x, a.y, a.z], "b": [b.x, b.y, b.z], "direction": dir.map(|d| vec![d.x, d.y, d.z])}));
    let r = guard(|| {
        let d = Distance3::new(a, b, dir);
        let rev = d.reversed();
        (d.value(), rev.value(), rev.a, rev.b, d.center().point, d.center().normal.into_inner(), d.direction.into_inner())
    });
    c.evals(3);
    let Ok((v, vr, ra, rb, ctr, cn, dd)) = r else {
        c.check("Distance3", "no-panic", "3d", false, || "panic".into());
        return;
    };
    let tol = 1e-12 * s * 4.0;
    match dir {
        Some(u) => {
            c.close("Distance3::value", "projection of b - a on the direction", "3d", v, u.dot(&(b - a)), tol);
        }
        None => {
            c.close("Distance3::value", "default direction: full distance, positive", "3d", v, (b - a).norm(), tol);
        }
    }
    c.close("Distance3::reversed", "keeps the value", "3d", vr, v, tol);
    c.check("Distance3::reversed", "swaps the points", "3d", ra == b && rb == a, || "points".into());
    c.close("Distance3::center", "mid-point with the direction as normal", "3d", (ctr - Point3::from((a.coords + b.coords) * 0.5)).norm() + (cn - dd).norm(), 0.0, tol);
    // 2D
    let (a2, b2) = (Point2::new(a.x, a.y), Point2::new(b.x, b.y));
    if (a2 - b2).norm() > 1e-9 * s {
        let dir2 = dir.map(|_| UnitVec2::new_normalize(gen::unit2(&mut c.rng)));
        if let Ok((v2, vr2)) = guard(|| {
            let d = Distance2::new(a2, b2, dir2);
            (d.value(), d.reversed().value())
        }) {
            c.evals(2);
            let want = match dir2 {
                Some(u) => u.dot(&(b2 - a2)),
                None => (b2 - a2).norm(),
            };
            c.close("Distance2::value", "projection of b - a on the direction", "2d", v2, want, tol);
            c.close("Distance2::reversed", "keeps the value", "2d", vr2, v2, tol);
        }
    }
    c.distinct(&(a.x.to_bits(), b.y.to_bits(), dir.is_some()));
}

fn run_devset(c: &mut Ctx) {
    let sp = SurfacePoint2::new(Point2::new(0.0, 0.0), UnitVec2::new_normalize(Vector2::new(0.0, 1.0)));
    let value = |c: &mut Ctx, mode: usize| -> f64 {
        match mode {
            0 => c.rng.range(-1.0, 1.0),
            1 => -c.rng.range(0.0, 1.0),              // all negative
            2 => c.rng.range(0.0, 1.0),               // all positive
            3 => c.rng.iint(-2, 2) as f64 * 0.5,      // many ties
            _ => *c.rng.pick(&[0.25, -0.25, 0.25, 0.0]), // equal extremes
        }
    };
    let mode = c.rng.int(0, 4);
    c.family(&format!("deviation-set/mode{mode}"));
    let mut model: Vec<f64> = Vec::new();
    let mut hist: Vec<Value> = Vec::new();
    // start either empty or from `new` with a vector
    let mut set = if c.rng.bool() {
        hist.push(json!("default"));
        SurfaceDeviationSet2::default()
    } else {
        let k = c.rng.int(0, 6);
        let vals: Vec<f64> = (0..k).map(|_| value(c, mode)).collect();
        model.extend(vals.iter());
        hist.push(json!({"new": vals}));
        match guard(|| SurfaceDeviationSet2::new(vals.iter().map(|v| SurfaceDeviation2::new(sp, *v)).collect())) {
            Ok(s) => s,
            Err(_) => {
                c.check("SurfaceDeviationSet::new", "no-panic", "history", false, || "panic".into());
                return;
            }
        }
    };
    let steps = if c.rng.chance(0.1) { 0 } else { c.rng.int(1, if c.thorough { 200 } else { 40 }) };
    let judge = |c: &mut Ctx, set: &SurfaceDeviationSet2, model: &[f64], after: &str| {
        c.eval();
        let api = "SurfaceDeviationSet";
        c.check(api, "len tracks the contents", "history", set.len() == model.len() && set.is_empty() == model.is_empty(), || format!("len {} vs {} after {after}", set.len(), model.len()));
        let mx = model.iter().cloned().fold(f64::NEG_INFINITY, f64::max);
        let mn = model.iter().cloned().fold(f64::INFINITY, f64::min);
        if model.is_empty() {
            c.check(api, "empty set has no extremes and zero zone", "history", set.max().is_none() && set.min().is_none() && set.symmetrical_zone_size() == 0.0, || "extremes on an empty set".into());
        } else {
            c.check(api, "max() is the true maximum of everything held", "history", set.max().map(|d| d.deviation) == Some(mx), || format!("max {:?} vs {mx} after {after} ({} values)", set.max().map(|d| d.deviation), model.len()));
            c.check(api, "min() is the true minimum of everything held", "history", set.min().map(|d| d.deviation) == Some(mn), || format!("min {:?} vs {mn} after {after} ({} values)", set.min().map(|d| d.deviation), model.len()));
            let zone = 2.0 * mx.abs().max(mn.abs());
            c.check(api, "symmetrical zone is twice the largest magnitude", "history", set.symmetrical_zone_size() == zone, || format!("{} vs {zone}", set.symmetrical_zone_size()));
            // contents in order
            let same = set.iter().map(|d| d.deviation).zip(model.iter()).all(|(a, b)| a == *b);
            c.check(api, "contents kept in order", "history", same, || "order".into());
        }
    };
    judge(c, &set, &model, "construction");
    for _ in 0..steps {
        let v = value(c, mode);
        let which = c.rng.bool();
        let r = guard(|| {
            if which {
                set.push(SurfaceDeviation2::new(sp, v));
            } else {
                set.push_new(sp, v);
            }
        });
        hist.push(json!({"push": v}));
        if r.is_err() {
            c.check("SurfaceDeviationSet", "push no-panic", "history", false, || "panic".into());
            break;
        }
        model.push(v);
        judge(c, &set, &model, "push");
    }
    c.set_case(json!({"history": hist}));
    if hist.len() >= 3 {
        c.distinct(&(mode, model.len(), model.first().map(|v| v.to_bits()), model.last().map(|v| v.to_bits())));
    }
}

#[derive(Clone, PartialEq, Debug)]
struct CloudModel {
    p: Vec<Point3>,
    n: Option<Vec<UnitVec3>>,
    col: Option<Vec<[u8; 3]>>,
}

fn cloud_equals(pc: &PointCloud, m: &CloudModel) -> bool {
    pc.points() == m.p.as_slice()
        && match (pc.normals(), &m.n) {
            (Some(a), Some(b)) => a == b.as_slice(),
            (None, None) => true,
            _ => false,
        }
        && match (pc.colors(), &m.col) {
            (Some(a), Some(b)) => a == b.as_slice(),
            (None, None) => true,
            _ => false,
        }
}

fn run_cloud(c: &mut Ctx) {
    c.family("point-cloud");
    let rp = |c: &mut Ctx| Point3::new(c.rng.range(-5.0, 5.0), c.rng.range(-5.0, 5.0), c.rng.range(-5.0, 5.0));
    let rn = |c: &mut Ctx| UnitVec3::new_normalize(gen::unit3(&mut c.rng));
    let rc = |c: &mut Ctx| [c.rng.int(0, 255) as u8, c.rng.int(0, 255) as u8, c.rng.int(0, 255) as u8];
    let mk = |c: &mut Ctx, k: usize, hn: bool, hc: bool, bad_n: bool, bad_c: bool| -> (Vec<Point3>, Option<Vec<UnitVec3>>, Option<Vec<[u8; 3]>>) {
        let p: Vec<Point3> = (0..k).map(|_| rp(c)).collect();
        let n = if hn { Some((0..if bad_n { k + 1 } else { k }).map(|_| rn(c)).collect()) } else { None };
        let col = if hc { Some((0..if bad_c { k.saturating_sub(1) } else { k }).map(|_| rc(c)).collect()) } else { None };
        (p, n, col)
    };
    let (hn, hc) = (c.rng.bool(), c.rng.bool());
    let mut hist: Vec<Value> = Vec::new();
    let api = "PointCloud";
    // ---- construction
    let k0 = c.rng.int(0, 6);
    let (bad_n, bad_c) = (hn && c.rng.chance(0.15), hc && k0 > 0 && c.rng.chance(0.15));
    let (p, n, col) = mk(c, k0, hn, hc, bad_n, bad_c);
    hist.push(json!({"try_new": k0, "normals": n.as_ref().map(|v| v.len()), "colors": col.as_ref().map(|v| v.len())}));
    let built = guard(|| PointCloud::try_new(p.clone(), n.clone(), col.clone()).ok());
    c.eval();
    let Ok(built) = built else {
        c.check(api, "try_new no-panic", "history", false, || "panic".into());
        return;
    };
    let expect_ok = !bad_n && !bad_c;
    if !c.check(api, "try_new accepts exactly matching lengths", "history", built.is_some() == expect_ok, || format!("points {k0} normals {:?} colors {:?} -> {}", n.as_ref().map(|v| v.len()), col.as_ref().map(|v| v.len()), built.is_some())) {
        return;
    }
    let (mut pc, mut model) = match built {
        Some(pc) => (pc, CloudModel { p, n, col }),
        None => {
            hist.push(json!("empty"));
            (PointCloud::empty(hn, hc), CloudModel { p: vec![], n: if hn { Some(vec![]) } else { None }, col: if hc { Some(vec![]) } else { None } })
        }
    };
    let steps = c.rng.int(1, if c.thorough { 120 } else { 30 });
    for _ in 0..steps {
        let op = c.rng.int(0, 4);
        match op {
            0 | 1 => {
                // append with matching or mismatching presence
                let (an, ac) = (if c.rng.chance(0.8) { hn } else { !hn }, if c.rng.chance(0.8) { hc } else { !hc });
                let (pt, nn, cc) = (rp(c), if an { Some(rn(c)) } else { None }, if ac { Some(rc(c)) } else { None });
                hist.push(json!({"append": {"normal": an, "color": ac}}));
                let r = guard(|| pc.append(pt, nn, cc).is_ok());
                c.eval();
                let Ok(ok) = r else {
                    c.check(api, "append no-panic", "history", false, || "panic".into());
                    break;
                };
                let accept = an == hn && ac == hc;
                c.check(api, "append accepted iff normal/colour presence matches", "history", ok == accept, || format!("cloud (n={hn},c={hc}) append (n={an},c={ac}) -> {ok}"));
                if accept {
                    model.p.push(pt);
                    if let Some(v) = &mut model.n {
                        v.push(nn.unwrap());
                    }
                    if let Some(v) = &mut model.col {
                        v.push(cc.unwrap());
                    }
                }
            }
            2 => {
                let (on, oc) = (if c.rng.chance(0.8) { hn } else { !hn }, if c.rng.chance(0.8) { hc } else { !hc });
                let k = c.rng.int(0, 5);
                let (p2, n2, c2) = mk(c, k, on, oc, false, false);
                hist.push(json!({"merge": {"points": k, "normals": on, "colors": oc}}));
                let other = PointCloud::try_new(p2.clone(), n2.clone(), c2.clone()).unwrap();
                let r = guard(|| pc.merge(other).is_ok());
                c.eval();
                let Ok(ok) = r else {
                    c.check(api, "merge no-panic", "history", false, || "panic".into());
                    break;
                };
                let accept = on == hn && oc == hc;
                c.check(api, "merge accepted iff normal/colour presence matches", "history", ok == accept, || format!("cloud (n={hn},c={hc}) merge (n={on},c={oc}) -> {ok}"));
                if accept {
                    model.p.extend(p2);
                    if let Some(v) = &mut model.n {
                        v.extend(n2.unwrap());
                    }
                    if let Some(v) = &mut model.col {
                        v.extend(c2.unwrap());
                    }
                }
            }
            3 => {
                if model.p.is_empty() {
                    continue;
                }
                let k = c.rng.int(0, 6);
                let idx: Vec<usize> = (0..k).map(|_| c.rng.int(0, model.p.len() - 1)).collect();
                hist.push(json!({"create_from_indices": idx}));
                let r = guard(|| pc.create_from_indices(&idx));
                c.eval();
                let Ok(sub) = r else {
                    c.check(api, "create_from_indices no-panic", "history", false, || "panic".into());
                    break;
                };
                let want = CloudModel { p: idx.iter().map(|i| model.p[*i]).collect(), n: model.n.as_ref().map(|v| idx.iter().map(|i| v[*i]).collect()), col: model.col.as_ref().map(|v| idx.iter().map(|i| v[*i]).collect()) };
                c.check(api, "create_from_indices selects exactly the indexed entries", "history", cloud_equals(&sub, &want), || format!("indices {idx:?}"));
                if c.rng.chance(0.3) {
                    pc = sub;
                    model = want;
                    hist.push(json!("continue with the selection"));
                }
            }
            _ => {
                let t = gen::iso3(&mut c.rng, 3.0);
                hist.push(json!({"transform": gen::jiso3(&t)}));
                if guard(|| pc.transform(&t)).is_err() {
                    c.check(api, "transform no-panic", "history", false, || "panic".into());
                    break;
                }
                c.eval();
                for p in &mut model.p {
                    *p = t * *p;
                }
                if let Some(v) = &mut model.n {
                    for nn in v.iter_mut() {
                        *nn = t * *nn;
                    }
                }
            }
        }
        // after every operation: equal lengths, contents equal the model (rejected ops changed nothing)
        let len_ok = pc.normals().map(|v| v.len() == pc.len()).unwrap_or(true) && pc.colors().map(|v| v.len() == pc.len()).unwrap_or(true);
        c.check(api, "points, normals and colours stay the same length", "history", len_ok, || format!("points {} normals {:?} colours {:?}", pc.len(), pc.normals().map(|v| v.len()), pc.colors().map(|v| v.len())));
        if !c.check(api, "contents equal the model (accepted operations append exactly, rejected ones change nothing)", "history", cloud_equals(&pc, &model), || format!("after {}", hist.last().unwrap())) {
            break;
        }
    }
    c.set_case(json!({"has_normals": hn, "has_colors": hc, "history": hist}));
    if hist.len() >= 3 {
        c.distinct(&(hn, hc, model.p.len(), hist.len(), model.p.first().map(|p| p.x.to_bits())));
    }
}

fn run_tolmap(c: &mut Ctx) {
    let k = if c.rng.chance(0.05) { 0 } else { c.rng.int(1, 20) };
    let mut bps = Vec::new();
    let mut x = c.rng.range(-10.0, 10.0);
    for _ in 0..k {
        bps.push(x);
        x += c.rng.log_range(1e-3, 3.0);
    }
    let zones: Vec<Tolerance> = (0..k).map(|i| Tolerance::symmetrical(0.0, 1.0 + i as f64)).collect();
    c.family(&format!("tolerance-map/{}", if k == 0 { "empty" } else { "table" }));
    let dom = DiscreteDomain::try_from(bps.clone()).unwrap();
    // mismatched lengths are rejected
    if k > 0 {
        if let Ok(r) = guard(|| DiscreteDomainTolMap::try_new(dom.clone(), zones[..k - 1].to_vec()).is_ok()) {
            c.check("DiscreteDomainTolMap::try_new", "length mismatch => Err", "construct", !r, || "accepted".into());
        }
    }
    let Ok(Ok(map)) = guard(|| DiscreteDomainTolMap::try_new(dom.clone(), zones.clone())) else {
        c.check("DiscreteDomainTolMap::try_new", "accepts matching lengths", "construct", false, || "rejected".into());
        return;
    };
    let mut probes = vec![c.rng.range(-20.0, 40.0)];
    if k > 0 {
        let i = c.rng.int(0, k - 1);
        probes.extend([bps[i], next_up(bps[i]), next_down(bps[i]), bps[0] - c.rng.log_range(1e-6, 5.0), bps[k - 1] + c.rng.log_range(1e-6, 5.0)]);
        if i + 1 < k {
            probes.push(0.5 * (bps[i] + bps[i + 1]));
        }
    }
    c.set_case(json!({"breakpoints": bps, "probes": probes}));
    for x in probes {
        let r = guard(|| map.get(x).map(|t| t.upper));
        c.eval();
        let Ok(got) = r else {
            c.check("DiscreteDomainTolMap::get", "no-panic", "query", false, || format!("panic at {x}"));
            continue;
        };
        // greatest breakpoint not above x
        let want = bps.iter().rposition(|b| *b <= x).map(|i| 1.0 + i as f64);
        let class = if k == 0 {
            "empty-table"
        } else if x < bps[0] {
            "below-the-first-breakpoint"
        } else if x > bps[k - 1] {
            "beyond-the-last-breakpoint"
        } else {
            "inside"
        };
        c.check("DiscreteDomainTolMap::get", "zone of the greatest breakpoint not above x", class, got == want, || {
            format!("get({x}) = zone with upper {got:?}, expected {want:?}; breakpoints {:?}..{:?}", bps.first(), bps.last())
        });
    }
    // constant map
    let ct = ConstantTolMap::new(Tolerance::symmetrical(0.5, 2.0));
    let x = c.rng.range(-1e3, 1e3);
    c.check("ConstantTolMap::get", "constant", "query", ct.get(x).map(|t| (t.lower, t.upper)) == Some((-1.5, 2.5)), || "constant map".into());
    c.distinct(&(k, bps.first().map(|b| b.to_bits())));
}
