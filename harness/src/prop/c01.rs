//! C01 — Curve stations are consistent with arc length.
//!
//! Oracle: closed-form station computed from the *stored* vertices (`points()`), with the
//! harness's own de-duplication model, cumulative sums and vertex-direction rule.

use crate::gen::{self, CurveCase2, CurveCase3};
use crate::oracle::{dist_seg2, dist_seg3, U};
use crate::report::{guard, Ctx};
use crate::rng::{next_down, next_up};
use crate::{Spec, Stream};
use engeom::{Curve2, Curve3, Point2, Point3, Vector2};
use serde_json::json;

pub fn spec() -> Spec {
    Spec {
        id: "C01",
        rule: "polyline cases drawn from 9 layout families x {open, exact-closed, tol-closed, force-closed} x scale 1e-3..1e3 x tol; \
               probes = {0, L, every stored vertex length (<=40 per curve), one ulp either side of each, -ulp, L+ulp, -scale, 2L, mid-edges, uniform}. \
               A case is non-trivial when the curve has >= 3 stored vertices and at least one probe fell strictly inside an edge and one exactly on a stored vertex length; \
               distinct = hash of (family, closure, vertex count, first vertex bits, tol bits).",
        assumptions: &[
            "oracle reads the stored vertices through the public points()/lengths() accessors",
            "absolute tolerance 1e-10*(extent+L) + 1e3*u*offset; direction tolerance 1e-9",
            "the direction clause is not judged at vertices where the adjacent edges double back (|d0+d1| < 1e-6)",
        ],
        streams: vec![
            Stream { name: "curve2", quick: 40_000, thorough: 1_500_000, run: run2 },
            Stream { name: "curve3", quick: 25_000, thorough: 1_000_000, run: run3 },
        ],
        required: vec![
            ("Curve2::at_length :: some-iff-in-range", 1000),
            ("Curve2::at_length :: vertex-direction", 1000),
            ("Curve3::at_length :: lerp", 1000),
            ("Curve2::iter", 100),
        ],
        exhaustive_note: None,
    }
}

fn dedup2(pts: &[Point2], tol: f64) -> Vec<Point2> {
    let mut out: Vec<Point2> = Vec::new();
    for p in pts {
        if let Some(l) = out.last() {
            if (p - l).norm() <= tol {
                continue;
            }
        }
        out.push(*p);
    }
    out
}

fn dedup3(pts: &[Point3], tol: f64) -> Vec<Point3> {
    let mut out: Vec<Point3> = Vec::new();
    for p in pts {
        if let Some(l) = out.last() {
            if (p - l).norm() <= tol {
                continue;
            }
        }
        out.push(*p);
    }
    out
}

fn probes(r: &mut crate::rng::Rng, lens: &[f64], scale: f64, thorough: bool) -> Vec<(f64, &'static str)> {
    let l_tot = *lens.last().unwrap();
    let mut out: Vec<(f64, &'static str)> = vec![
        (0.0, "zero"),
        (-0.0, "neg-zero"),
        (l_tot, "L"),
        (next_down(0.0), "below-0"),
        (next_up(l_tot), "above-L"),
        (-scale, "far-below"),
        (2.0 * l_tot + scale, "far-above"),
        (next_up(0.0), "ulp-above-0"),
        (next_down(l_tot), "ulp-below-L"),
    ];
    let nv = lens.len();
    let cap = if thorough { 80 } else { 40 };
    let idxs: Vec<usize> = if nv <= cap { (0..nv).collect() } else { (0..cap).map(|_| r.int(0, nv - 1)).collect() };
    for &k in &idxs {
        out.push((lens[k], "vertex"));
        out.push((next_up(lens[k]), "vertex+ulp"));
        out.push((next_down(lens[k]), "vertex-ulp"));
        if k + 1 < nv {
            out.push((0.5 * (lens[k] + lens[k + 1]), "mid-edge"));
        }
    }
    for _ in 0..30 {
        out.push((r.range(0.0, l_tot), "uniform"));
    }
    out
}

fn run2(c: &mut Ctx) {
    let max_n = if c.thorough && c.rng.chance(0.02) { 5000 } else { 400 };
    let case: CurveCase2 = gen::curve_case2(&mut c.rng, max_n);
    c.family(&format!("curve2/{}/{}", case.fam, case.closure));
    c.set_case(case.json());
    let class = format!("2d/{}", case.closure);

    // expected stored vertex list: de-duplicate, then close
    let mut exp = dedup2(&case.pts, case.tol);
    let built = guard(|| Curve2::from_points(&case.pts, case.tol, case.force_closed));
    c.eval();
    let curve = match built {
        Err(p) => {
            c.check("Curve2::from_points", "no-panic", &class, false, || format!("{} {}", p.sig(), p.msg));
            return;
        }
        Ok(Err(_)) => {
            c.check("Curve2::from_points", "err-iff-under-2-vertices", &class, exp.len() < 2, || {
                format!("Err although {} vertices survive de-duplication", exp.len())
            });
            return;
        }
        Ok(Ok(cv)) => cv,
    };
    if !c.check("Curve2::from_points", "err-iff-under-2-vertices", &class, exp.len() >= 2, || "Ok with < 2 vertices".into()) {
        return;
    }
    if case.force_closed && (exp[0] - exp[exp.len() - 1]).norm() > case.tol {
        let f = exp[0];
        exp.push(f);
    }
    let v = curve.points().to_vec();
    let same = v.len() == exp.len() && v.iter().zip(exp.iter()).all(|(a, b)| a == b);
    if !c.check("Curve2::from_points", "stored-vertices", &class, same, || {
        format!("stored {} vertices, model {}", v.len(), exp.len())
    }) {
        return;
    }
    let n = v.len();
    let exp_closed = (v[0] - v[n - 1]).norm() <= case.tol;
    c.check("Curve2::from_points", "closed-flag", &class, curve.is_closed() == exp_closed, || {
        format!("is_closed {} expected {}", curve.is_closed(), exp_closed)
    });
    c.check("Curve2::count", "count", &class, curve.count() == n, || format!("{} vs {}", curve.count(), n));

    // (i) cumulative lengths
    let lens = curve.lengths().clone();
    let mut sum = 0.0;
    let mut mono = lens.len() == n && lens[0] == 0.0;
    let mut worst = 0.0f64;
    for i in 0..n - 1 {
        sum += (v[i + 1] - v[i]).norm();
        if lens.len() == n {
            if lens[i + 1] < lens[i] {
                mono = false;
            }
            worst = worst.max((lens[i + 1] - sum).abs());
        }
    }
    c.check("Curve2::lengths", "starts-0-nondecreasing", &class, mono, || format!("{:?}", &lens[..lens.len().min(6)]));
    if !mono {
        return;
    }
    c.close("Curve2::lengths", "cumulative-sum", &class, worst, 0.0, 1e-12 * sum + 4.0 * U * sum);
    let l_tot = curve.length();
    c.check("Curve2::length", "equals-last", &class, l_tot == lens[n - 1], || format!("{l_tot} vs {}", lens[n - 1]));

    let ext = {
        let (mut lo, mut hi) = ([f64::INFINITY; 2], [f64::NEG_INFINITY; 2]);
        for p in &v {
            for k in 0..2 {
                lo[k] = lo[k].min(p[k]);
                hi[k] = hi[k].max(p[k]);
            }
        }
        (hi[0] - lo[0]).hypot(hi[1] - lo[1])
    };
    let off = v.iter().map(|p| p.coords.norm()).fold(0.0, f64::max);
    let eps = 1e-10 * (ext + l_tot) + 1e3 * U * off;

    let edge_dir = |i: usize| -> Vector2 { (v[i + 1] - v[i]).normalize() };
    // vertex rule; None = not judged (doubling back)
    let vertex_dir = |k: usize| -> Option<Vector2> {
        let (d0, d1) = if exp_closed && (k == 0 || k == n - 1) {
            (edge_dir(0), edge_dir(n - 2))
        } else if k == 0 {
            return Some(edge_dir(0));
        } else if k == n - 1 {
            return Some(edge_dir(n - 2));
        } else {
            (edge_dir(k - 1), edge_dir(k))
        };
        let s = d0 + d1;
        if s.norm() < 1e-6 {
            None
        } else {
            Some(s.normalize())
        }
    };

    let mut saw_inside = false;
    let mut saw_vertex = false;
    let pr = probes(&mut c.rng, &lens, case.scale, c.thorough);
    for (l, kind) in pr {
        let st = match guard(|| curve.at_length(l).map(|s| (s.point(), s.direction().into_inner(), s.normal().into_inner(), s.index(), s.fraction(), s.length_along()))) {
            Ok(s) => s,
            Err(p) => {
                c.check("Curve2::at_length", "no-panic", &format!("{class}/{kind}"), false, || format!("{} {} l={l:e}", p.sig(), p.msg));
                continue;
            }
        };
        c.eval();
        let in_range = l >= 0.0 && l <= l_tot;
        if !c.check("Curve2::at_length", "some-iff-in-range", &format!("{class}/{kind}"), st.is_some() == in_range, || {
            format!("l={l:e} L={l_tot:e} returned {}", if st.is_some() { "Some" } else { "None" })
        }) {
            continue;
        }
        let Some((pt, dir, nrm, idx, fr, la)) = st else { continue };
        c.note(&format!("probe/{kind}"));
        if !c.check("Curve2::at_length", "index-fraction-range", &class, idx + 2 <= n && (0.0..=1.0).contains(&fr), || {
            format!("l={l:e} index {idx} fraction {fr:e} n={n}")
        }) {
            continue;
        }
        c.check("Curve2::at_length", "edge-contains-l", &class, lens[idx] <= l && l <= lens[idx + 1], || {
            format!("l={l:e} not in [{:e},{:e}] of edge {idx}", lens[idx], lens[idx + 1])
        });
        let lerp = v[idx] + (v[idx + 1] - v[idx]) * fr;
        c.close("Curve2::at_length", "lerp", &class, (lerp - pt).norm(), 0.0, eps);
        c.close("Curve2::at_length", "length-along", &class, la, l, eps);
        c.close("Curve2::at_length", "on-edge", &class, dist_seg2(&v[idx], &v[idx + 1], &pt), 0.0, eps);
        let vertex_hit = lens.iter().position(|x| *x == l);
        // At a vertex whose adjacent edges double back exactly the "normalised sum" that defines
        // the direction does not exist; nothing about the direction is judged there.
        let undefined_dir = vertex_hit.map(|k| vertex_dir(k).is_none()).unwrap_or(false);
        if undefined_dir {
            c.note("vertex-with-undefined-direction (adjacent edges antiparallel)");
            c.skip("Curve2::at_length :: unit-direction");
        } else {
            c.close("Curve2::at_length", "unit-direction", &class, dir.norm(), 1.0, 1e-12);
            // normal = direction rotated by -90 degrees
            let exp_n = Vector2::new(dir.y, -dir.x);
            c.close("CurveStation2::normal", "rot-minus-90", &class, (exp_n - nrm).norm(), 0.0, 1e-12);
        }
        if let Some(k) = vertex_hit {
            saw_vertex = true;
            match vertex_dir(k) {
                Some(d) => {
                    c.close("Curve2::at_length", "vertex-direction", &class, (d - dir).norm(), 0.0, 1e-9);
                }
                None => c.skip("Curve2::at_length :: vertex-direction"),
            }
            let want = if k == n - 1 { (n - 2, 1.0) } else { (k, 0.0) };
            c.check("Curve2::at_length", "vertex-index-fraction", &class, (idx, fr) == want && pt == v[k], || {
                format!("vertex {k}: got ({idx},{fr:e}) point {pt:?}")
            });
        } else {
            saw_inside = true;
            let d = edge_dir(idx);
            let ok = (d - dir).norm() <= 1e-9;
            c.check("Curve2::at_length", "edge-direction", &class, ok, || format!("l={l:e} edge {idx} dir {dir:?} want {d:?}"));
        }
        // (h) same place by fraction
        if l_tot > 0.0 {
            let fq = l / l_tot;
            let sf = guard(|| curve.at_fraction(fq).map(|s| (s.point(), s.index(), s.fraction(), s.direction().into_inner())));
            c.eval();
            match sf {
                Ok(Some((p2, i2, f2, d2))) => {
                    c.close("Curve2::at_fraction", "same-point", &class, (p2 - pt).norm(), 0.0, eps);
                    if fq * l_tot == l {
                        c.check("Curve2::at_fraction", "same-station", &class, i2 == idx && f2 == fr && (d2 == dir || undefined_dir), || {
                            format!("l={l:e}: ({i2},{f2:e}) vs ({idx},{fr:e})")
                        });
                    }
                }
                Ok(None) => {
                    c.check("Curve2::at_fraction", "some", &class, false, || format!("None for fraction {fq:e} (l={l:e}, L={l_tot:e})"));
                }
                Err(p) => {
                    c.check("Curve2::at_fraction", "no-panic", &class, false, || format!("{} {}", p.sig(), p.msg));
                }
            }
        }
    }

    // by vertex index / iteration
    let its = guard(|| curve.iter().map(|s| (s.point(), s.direction().into_inner(), s.index(), s.fraction())).collect::<Vec<_>>());
    c.eval();
    match its {
        Ok(items) => {
            c.check("Curve2::iter", "count", &class, items.len() == n, || format!("{} items for {n} vertices", items.len()));
            let step = (n / 50).max(1);
            for k in (0..items.len().min(n)).step_by(step) {
                let (p, d, i, f) = items[k];
                let by_len = curve.at_length(lens[k]).map(|s| (s.point(), s.direction().into_inner(), s.index(), s.fraction()));
                // with repeated cumulative values the binary search may name another vertex; only
                // judge when the stored length is unique
                let unique = lens.iter().filter(|x| **x == lens[k]).count() == 1;
                let undefined_dir = vertex_dir(k).is_none();
                let same = match by_len {
                    Some((p2, d2, i2, f2)) => p2 == p && i2 == i && f2 == f && (d2 == d || undefined_dir),
                    None => false,
                };
                if unique {
                    c.check("Curve2::iter", "same-as-at-length", &class, same, || {
                        format!("vertex {k}: iter ({i},{f:e}) vs at_length {:?}", by_len.map(|x| (x.2, x.3)))
                    });
                }
                c.check("Curve2::iter", "vertex-point", &class, p == v[k], || format!("vertex {k}"));
            }
            let fr = curve.at_front();
            let bk = curve.at_back();
            c.check("Curve2::at_front", "first-vertex", &class, fr.point() == v[0] && fr.index() == 0 && fr.fraction() == 0.0, || "front".into());
            c.check("Curve2::at_back", "last-vertex", &class, bk.point() == v[n - 1] && bk.index() == n - 2 && bk.fraction() == 1.0, || {
                format!("back ({}, {})", bk.index(), bk.fraction())
            });
        }
        Err(p) => {
            c.check("Curve2::iter", "no-panic", &class, false, || format!("{} {}", p.sig(), p.msg));
        }
    }

    if n >= 3 && saw_inside && saw_vertex {
        c.distinct(&(case.fam, case.closure, n, v[0].x.to_bits(), v[0].y.to_bits(), case.tol.to_bits()));
    }
}

fn run3(c: &mut Ctx) {
    let max_n = if c.thorough && c.rng.chance(0.02) { 5000 } else { 400 };
    let case: CurveCase3 = gen::curve_case3(&mut c.rng, max_n);
    c.family(&format!("curve3/{}", case.fam));
    c.set_case(case.json());
    let class = "3d".to_string();

    let exp = dedup3(&case.pts, case.tol);
    let built = guard(|| Curve3::from_points(&case.pts, case.tol));
    c.eval();
    let curve = match built {
        Err(p) => {
            c.check("Curve3::from_points", "no-panic", &class, false, || format!("{} {}", p.sig(), p.msg));
            return;
        }
        Ok(Err(_)) => {
            c.check("Curve3::from_points", "err-iff-under-2-vertices", &class, exp.len() < 2, || {
                format!("Err although {} vertices survive", exp.len())
            });
            return;
        }
        Ok(Ok(cv)) => cv,
    };
    if !c.check("Curve3::from_points", "err-iff-under-2-vertices", &class, exp.len() >= 2, || "Ok with < 2 vertices".into()) {
        return;
    }
    let v = curve.points().to_vec();
    let same = v.len() == exp.len() && v.iter().zip(exp.iter()).all(|(a, b)| a == b);
    if !c.check("Curve3::from_points", "stored-vertices", &class, same, || format!("stored {} model {}", v.len(), exp.len())) {
        return;
    }
    let n = v.len();
    c.check("Curve3::count", "count", &class, curve.count() == n, || format!("{} vs {n}", curve.count()));
    let lens = curve.lengths().to_vec();
    let mut sum = 0.0;
    let mut mono = lens.len() == n && lens[0] == 0.0;
    let mut worst = 0.0f64;
    for i in 0..n - 1 {
        sum += (v[i + 1] - v[i]).norm();
        if lens.len() == n {
            if lens[i + 1] < lens[i] {
                mono = false;
            }
            worst = worst.max((lens[i + 1] - sum).abs());
        }
    }
    c.check("Curve3::lengths", "starts-0-nondecreasing", &class, mono, || format!("{:?}", &lens[..lens.len().min(6)]));
    if !mono {
        return;
    }
    c.close("Curve3::lengths", "cumulative-sum", &class, worst, 0.0, 1e-12 * sum + 4.0 * U * sum);
    let l_tot = curve.length();
    c.check("Curve3::length", "equals-last", &class, l_tot == lens[n - 1], || format!("{l_tot} vs {}", lens[n - 1]));
    let m = crate::oracle::PolyModel3::new(&v);
    let eps = 1e-10 * (m.extent() + l_tot) + 1e3 * U * m.offset();
    let edge_dir = |i: usize| (v[i + 1] - v[i]).normalize();

    let mut saw_inside = false;
    let mut saw_vertex = false;
    let pr = probes(&mut c.rng, &lens, case.scale, c.thorough);
    for (l, kind) in pr {
        let st = match guard(|| curve.at_length(l).map(|s| (s.point(), s.direction().into_inner(), s.index(), s.fraction(), s.length_along()))) {
            Ok(s) => s,
            Err(p) => {
                c.check("Curve3::at_length", "no-panic", &format!("{class}/{kind}"), false, || format!("{} {} l={l:e}", p.sig(), p.msg));
                continue;
            }
        };
        c.eval();
        let in_range = l >= 0.0 && l <= l_tot;
        if !c.check("Curve3::at_length", "some-iff-in-range", &format!("{class}/{kind}"), st.is_some() == in_range, || {
            format!("l={l:e} L={l_tot:e} returned {}", if st.is_some() { "Some" } else { "None" })
        }) {
            continue;
        }
        let Some((pt, dir, idx, fr, la)) = st else { continue };
        if !c.check("Curve3::at_length", "index-fraction-range", &class, idx + 2 <= n && (0.0..=1.0).contains(&fr), || {
            format!("l={l:e} index {idx} fraction {fr:e} n={n}")
        }) {
            continue;
        }
        c.check("Curve3::at_length", "edge-contains-l", &class, lens[idx] <= l && l <= lens[idx + 1], || {
            format!("l={l:e} not in [{:e},{:e}]", lens[idx], lens[idx + 1])
        });
        let lerp = v[idx] + (v[idx + 1] - v[idx]) * fr;
        c.close("Curve3::at_length", "lerp", &class, (lerp - pt).norm(), 0.0, eps);
        c.close("Curve3::at_length", "length-along", &class, la, l, eps);
        c.close("Curve3::at_length", "on-edge", &class, dist_seg3(&v[idx], &v[idx + 1], &pt), 0.0, eps);
        c.close("Curve3::at_length", "unit-direction", &class, dir.norm(), 1.0, 1e-12);
        if let Some(k) = lens.iter().position(|x| *x == l) {
            saw_vertex = true;
            let d = if k == n - 1 { edge_dir(n - 2) } else { edge_dir(k) };
            c.close("Curve3::at_length", "vertex-direction", &class, (d - dir).norm(), 0.0, 1e-9);
            let want = if k == n - 1 { (n - 2, 1.0) } else { (k, 0.0) };
            c.check("Curve3::at_length", "vertex-index-fraction", &class, (idx, fr) == want && pt == v[k], || {
                format!("vertex {k}: got ({idx},{fr:e})")
            });
        } else {
            saw_inside = true;
            let d = edge_dir(idx);
            c.check("Curve3::at_length", "edge-direction", &class, (d - dir).norm() <= 1e-9, || format!("l={l:e} edge {idx}"));
        }
        if l_tot > 0.0 {
            let fq = l / l_tot;
            let sf = guard(|| curve.at_fraction(fq).map(|s| (s.point(), s.index(), s.fraction())));
            c.eval();
            match sf {
                Ok(Some((p2, i2, f2))) => {
                    c.close("Curve3::at_fraction", "same-point", &class, (p2 - pt).norm(), 0.0, eps);
                    if fq * l_tot == l {
                        c.check("Curve3::at_fraction", "same-station", &class, i2 == idx && f2 == fr, || format!("({i2},{f2:e}) vs ({idx},{fr:e})"));
                    }
                }
                Ok(None) => {
                    c.check("Curve3::at_fraction", "some", &class, false, || format!("None for fraction {fq:e}"));
                }
                Err(p) => {
                    c.check("Curve3::at_fraction", "no-panic", &class, false, || format!("{} {}", p.sig(), p.msg));
                }
            }
        }
    }
    let its = guard(|| curve.iter().map(|s| (s.point(), s.direction().into_inner(), s.index(), s.fraction())).collect::<Vec<_>>());
    c.eval();
    match its {
        Ok(items) => {
            c.check("Curve3::iter", "count", &class, items.len() == n, || format!("{} items for {n}", items.len()));
            let step = (n / 50).max(1);
            for k in (0..items.len().min(n)).step_by(step) {
                let (p, d, i, f) = items[k];
                let by_len = curve.at_length(lens[k]).map(|s| (s.point(), s.direction().into_inner(), s.index(), s.fraction()));
                if lens.iter().filter(|x| **x == lens[k]).count() == 1 {
                    c.check("Curve3::iter", "same-as-at-length", &class, by_len == Some((p, d, i, f)), || format!("vertex {k}"));
                }
                c.check("Curve3::iter", "vertex-point", &class, p == v[k], || format!("vertex {k}"));
            }
            let bk = curve.at_back();
            c.check("Curve3::at_back", "last-vertex", &class, bk.point() == v[n - 1] && bk.index() == n - 2 && bk.fraction() == 1.0, || "back".into());
            let fr = curve.at_front();
            c.check("Curve3::at_front", "first-vertex", &class, fr.point() == v[0] && fr.index() == 0 && fr.fraction() == 0.0, || "front".into());
        }
        Err(p) => {
            c.check("Curve3::iter", "no-panic", &class, false, || format!("{} {}", p.sig(), p.msg));
        }
    }
    if n >= 3 && saw_inside && saw_vertex {
        c.distinct(&(case.fam, n, v[0].x.to_bits(), case.tol.to_bits()));
    }
    let _ = json!(null);
}
