//! C10 — Airfoil analysis yields inscribed circles and recovers a known medial axis.
//!
//! Workload: sections generated as the envelope of circles r(s) along a circular-arc (or straight)
//! camber curve, closed by the two end circles, so the medial axis (the camber curve), the radius
//! law, the edge apexes and every gauge thickness are known in closed form.  Every analysis the
//! library accepts (`Ok`) is judged against the section itself (inscribed-circle clauses) and
//! against the generator (axis, radius law, thicknesses); the same section is analysed again after
//! a rigid motion, with reversed vertex order and with a rotated start vertex; every analysis runs
//! under a step bound on the hooked search loops.

use crate::gen;
use crate::oracle::{brute_poly2, cross2};
use crate::report::{guard_fuel, Ctx};
use crate::{Spec, Stream};
use engeom::airfoil::{
    AfGage, AirfoilGeometry, CamberOrient, ConstRadiusEdge, ConvergeTangentEdge, DirectionFwd, EdgeGeometry, EdgeLocate, FaceOrient, FitRadiusEdge, IntersectEdge, OpenEdge, OpenIntersectGap,
    RansacRadiusEdge, TMaxFwd, TraceToMaxCurvature,
};
use engeom::{Curve2, Iso2, Point2, Vector2};
use serde_json::json;
use std::f64::consts::{PI, TAU};

pub fn spec() -> Spec {
    Spec {
        id: "C10",
        rule: "closed sections = envelope of circles r(u) = r_le (1-u) + r_te u + A sin(pi w(u)) (maximum at 28-44% of the camber, |r'| <= 0.6) along a camber arc of length 0.3..300 (one in five 300..30000) and curvature x length in [0, 1] (straight in one case of four), thickness 4-25% of the camber length, \
               edge radii 0.6-6% , 200..3000 boundary points with uneven density, random pose and mirror image, both windings, random start vertex; open sections (trailing cap removed) for the open-edge methods. \
               Configurations: {TMaxFwd, DirectionFwd(+-chord)} x 8 edge locators at either end x {Detect, UpperDir(v)} x core_tol in {1e-3, 1e-4, 1e-5} x camber length. \
               Non-trivial = an accepted analysis with at least 5 stations; distinct = hash of the section parameters and the configuration.",
        assumptions: &[
            "an Err from try_analyze means the method does not accept the section and is not judged (acceptance counts per locator are reported)",
            "tolerances: inscribed-circle clauses 5 x core_tol (5 x its inlier tolerance for what RansacRadiusEdge adds; plus twice the chord sag for an edge point, which may lie on a fitted arc); recovered axis / radius law / thicknesses 4 x (largest chord sag of the sampled boundary) + 10 x core_tol",
            "equivariance is judged on the measurements (maximum thickness, camber length, edge points, gauge thicknesses) with 20 x core_tol + 4 x sag, not on the station lists",
            "the analysis tolerance is at least twice the largest chord sag of the sampled section (a tolerance below the discretisation error is raised by factors of ten, up to 1e-3 x camber length)",
            "the clause on the sides of the contact points is judged for stations inside the known camber range, 20 x core_tol away from its ends: at and beyond the ends the inscribed circle touches a whole cap arc and the generator defines no camber direction",
            "step bound: 2000 x (boundary points + camber length / core_tol) ticks of the hooked loops per analysis",
        ],
        streams: vec![
            Stream { name: "closed", quick: 2500, thorough: 120_000, run: run_closed },
            Stream { name: "open", quick: 600, thorough: 20_000, run: run_open },
            Stream { name: "equivariance", quick: 500, thorough: 20_000, run: run_equiv },
            Stream { name: "front-back", quick: 700, thorough: 25_000, run: run_front_back },
        ],
        required: vec![("finds the same edge point at the front and at the back", 150), ("AirfoilGeometry::try_analyze :: every station is an inscribed circle", 500), ("station centres lie on the known camber curve", 500), ("terminates within the step bound", 2000)],
        exhaustive_note: None,
    }
}

// ---------------------------------------------------------------------------------------------
// the generator and its closed forms (local frame: camber starts at the origin along +x and bends
// towards +y)

#[derive(Clone)]
pub struct Section {
    len: f64,
    kappa: f64,
    r_le: f64,
    r_te: f64,
    amp: f64,
    /// warp constant: the bump A sin(pi w(u)), w(u) = u / (u + k (1 - u)), peaks at u = k / (1 + k)
    warp: f64,
    /// boundary points in the local frame: upper side LE->TE, TE cap, lower side TE->LE, LE cap
    local: Vec<Point2>,
    /// index ranges of the four pieces in `local`
    n_upper: usize,
    n_te_cap: usize,
    n_lower: usize,
    sag: f64,
    mirror: bool,
    pose: Iso2,
    /// arc position beyond which the boundary was removed (open sections); infinite otherwise
    cut: f64,
    /// arc positions of the upper / lower boundary points
    up_params: Vec<f64>,
    lo_params: Vec<f64>,
}

impl Section {
    fn r(&self, s: f64) -> f64 {
        let u = s / self.len;
        let w = u / (u + self.warp * (1.0 - u));
        self.r_le * (1.0 - u) + self.r_te * u + self.amp * (PI * w).sin()
    }
    fn dr(&self, s: f64) -> f64 {
        let u = s / self.len;
        let den = u + self.warp * (1.0 - u);
        let (w, dw) = (u / den, self.warp / (den * den));
        ((self.r_te - self.r_le) + self.amp * PI * (PI * w).cos() * dw) / self.len
    }
    fn c(&self, s: f64) -> Point2 {
        if self.kappa == 0.0 {
            Point2::new(s, 0.0)
        } else {
            Point2::new((self.kappa * s).sin() / self.kappa, (1.0 - (self.kappa * s).cos()) / self.kappa)
        }
    }
    fn t(&self, s: f64) -> Vector2 {
        Vector2::new((self.kappa * s).cos(), (self.kappa * s).sin())
    }
    fn n(&self, s: f64) -> Vector2 {
        let t = self.t(s);
        Vector2::new(-t.y, t.x)
    }
    /// envelope point on side +1 (towards +n, the concave side of the camber) or -1
    fn env(&self, s: f64, side: f64) -> Point2 {
        let (r, d) = (self.r(s), self.dr(s));
        self.c(s) - self.t(s) * (r * d) + self.n(s) * (side * r * (1.0 - d * d).sqrt())
    }
    /// (arc position, distance from the axis) of a local point; arc position may lie outside [0, len]
    fn axis_param(&self, p: &Point2) -> (f64, f64) {
        if self.kappa == 0.0 {
            (p.x, p.y.abs())
        } else {
            let cc = Point2::new(0.0, 1.0 / self.kappa);
            let v = p - cc;
            let ang = v.x.atan2(-v.y); // 0 at the origin, increasing along the camber
            (ang / self.kappa, (v.norm() - 1.0 / self.kappa).abs())
        }
    }
    /// arc position extended along the end tangents beyond the two ends of the camber
    fn arc_position(&self, p: &Point2) -> f64 {
        let (s, _) = self.axis_param(p);
        if s < 0.0 {
            (p - self.c(0.0)).dot(&self.t(0.0))
        } else if s > self.len {
            self.len + (p - self.c(self.len)).dot(&self.t(self.len))
        } else {
            s
        }
    }
    fn to_local(&self, p: &Point2) -> Point2 {
        let q = self.pose.inverse() * p;
        if self.mirror {
            Point2::new(q.x, -q.y)
        } else {
            q
        }
    }
    fn to_world(&self, p: &Point2) -> Point2 {
        let q = if self.mirror { Point2::new(p.x, -p.y) } else { *p };
        self.pose * q
    }
    fn world_points(&self) -> Vec<Point2> {
        self.local.iter().map(|p| self.to_world(p)).collect()
    }
    fn apex_le(&self) -> Point2 {
        self.c(0.0) - self.t(0.0) * self.r(0.0)
    }
    fn apex_te(&self) -> Point2 {
        self.c(self.len) + self.t(self.len) * self.r(self.len)
    }
    fn r_max(&self) -> (f64, f64) {
        let mut best = (0.0, 0.0);
        for k in 0..=4000 {
            let s = self.len * k as f64 / 4000.0;
            if self.r(s) > best.1 {
                best = (s, self.r(s));
            }
        }
        best
    }
    /// thickness across the camber normal at arc position s: distance between the two envelope
    /// points whose offset from c(s) is perpendicular to t(s); None if the normal leaves through a cap
    fn thickness_normal(&self, s: f64) -> Option<f64> {
        let (c0, t0) = (self.c(s), self.t(s));
        let mut ends = [Point2::origin(); 2];
        for (k, side) in [1.0, -1.0].iter().enumerate() {
            let f = |x: f64| (self.env(x, *side) - c0).dot(&t0);
            let (mut lo, mut hi) = (0.0, self.len);
            if f(lo) > 0.0 || f(hi) < 0.0 {
                return None;
            }
            for _ in 0..80 {
                let m = 0.5 * (lo + hi);
                if f(m) > 0.0 {
                    hi = m;
                } else {
                    lo = m;
                }
            }
            ends[k] = self.env(0.5 * (lo + hi), *side);
        }
        Some((ends[0] - ends[1]).norm())
    }
    /// distance between the two envelope points at distance `rad` from the local point `centre`
    /// (searching from the given end); None if a side has no such point on the envelope
    fn thickness_radius(&self, centre: &Point2, rad: f64, from_le: bool) -> Option<f64> {
        let mut ends = [Point2::origin(); 2];
        for (k, side) in [1.0, -1.0].iter().enumerate() {
            let f = |x: f64| (self.env(x, *side) - centre).norm() - rad;
            // first crossing walking away from the chosen end
            let steps = 4000;
            let mut found = None;
            let mut prev = if from_le { 0.0 } else { self.len };
            let mut fprev = f(prev);
            for i in 1..=steps {
                let x = if from_le { self.len * i as f64 / steps as f64 } else { self.len * (1.0 - i as f64 / steps as f64) };
                let fx = f(x);
                if fprev < 0.0 && fx >= 0.0 {
                    found = Some((prev, x));
                    break;
                }
                prev = x;
                fprev = fx;
            }
            let (mut lo, mut hi) = found?;
            for _ in 0..60 {
                let m = 0.5 * (lo + hi);
                if f(m) >= 0.0 {
                    hi = m;
                } else {
                    lo = m;
                }
            }
            ends[k] = self.env(0.5 * (lo + hi), *side);
        }
        Some((ends[0] - ends[1]).norm())
    }
    fn json(&self) -> serde_json::Value {
        json!({"camber_length": self.len, "curvature": self.kappa, "r_le": self.r_le, "r_te": self.r_te, "amplitude": self.amp, "warp": self.warp, "points": self.local.len(), "mirror": self.mirror, "pose": gen::jiso2(&self.pose), "max_sag": self.sag})
    }
}

fn sag_of(a: &Point2, b: &Point2, mid_true: &Point2) -> f64 {
    crate::oracle::dist_seg2(a, b, mid_true)
}

pub fn make_section(c: &mut Ctx) -> Section {
    let r = &mut c.rng;
    // one section in five in small units (camber length up to 30000)
    let len = if r.chance(0.2) { r.log_range(300.0, 30_000.0) } else { r.log_range(0.3, 300.0) };
    let kappa = if r.chance(0.25) { 0.0 } else { r.range(0.05, 1.0) / len };
    let tmax = len * r.range(0.04, 0.25);
    let r_le = len * r.range(0.006, 0.06).min(0.45 * tmax / len);
    // the trailing radius is usually the smaller one; three sections in ten have a thin nose and a
    // thick tail instead
    let r_te = if r.chance(0.3) { (r_le * r.range(1.0, 2.5)).min(0.45 * tmax) } else { (len * r.range(0.006, 0.06)).min(r_le * r.range(0.3, 1.0)) };
    // amplitude so that the maximum radius is about tmax / 2, and |r'| stays well below 1
    let mut amp = (tmax / 2.0 - 0.5 * (r_le + r_te)).max(0.0) * if r.chance(0.15) { 0.0 } else { 1.0 };
    // maximum thickness at 28-42% of the camber length
    let u_max = r.range(0.28, 0.44);
    let warp = u_max / (1.0 - u_max);
    let n = r.log_range(200.0, 3000.0) as usize;
    let mirror = r.bool();
    let pose = gen::iso2(r, 3.0 * len);
    // keep |r'| below 0.6 everywhere (regular envelope)
    loop {
        let probe = Section { len, kappa, r_le, r_te, amp, warp, local: Vec::new(), n_upper: 0, n_te_cap: 0, n_lower: 0, sag: 0.0, mirror: false, pose: Iso2::identity(), cut: f64::INFINITY, up_params: vec![], lo_params: vec![] };
        let worst = (0..=200).map(|k| probe.dr(len * k as f64 / 200.0).abs()).fold(0.0, f64::max);
        if worst <= 0.6 || amp == 0.0 {
            break;
        }
        amp *= 0.8;
    }
    // a thick tail must not be the thickest place of the section (the maximum stays in the forward
    // half, as on an airfoil): otherwise fall back to a tail thinner than the nose
    let mut r_te = r_te;
    {
        let probe = Section { len, kappa, r_le, r_te, amp, warp, local: Vec::new(), n_upper: 0, n_te_cap: 0, n_lower: 0, sag: 0.0, mirror: false, pose: Iso2::identity(), cut: f64::INFINITY, up_params: vec![], lo_params: vec![] };
        if r_te > r_le && probe.r_max().0 > 0.46 * len {
            r_te = 0.7 * r_le;
        }
    }
    let mut s = Section { len, kappa, r_le, r_te, amp, warp, local: Vec::new(), n_upper: 0, n_te_cap: 0, n_lower: 0, sag: 0.0, mirror, pose, cut: f64::INFINITY, up_params: vec![], lo_params: vec![] };
    // arc positions: a blend of uniform and cosine spacing, jittered
    let blend = r.range(0.0, 1.0);
    let n_side = (n as f64 * 0.4) as usize;
    let mut params = |r: &mut crate::rng::Rng| -> Vec<f64> {
        let mut v: Vec<f64> = (0..=n_side)
            .map(|i| {
                let x = (i as f64 + if i > 0 && i < n_side { r.range(-0.3, 0.3) } else { 0.0 }) / n_side as f64;
                let cosx = 0.5 * (1.0 - (PI * x).cos());
                len * (blend * x + (1.0 - blend) * cosx)
            })
            .collect();
        v[0] = 0.0;
        v[n_side] = len;
        v
    };
    let up = params(r);
    let lo = params(r);
    let mut pts: Vec<Point2> = Vec::new();
    let mut sag = 0.0f64;
    // upper side (+n) from LE to TE
    for (i, x) in up.iter().enumerate() {
        pts.push(s.env(*x, 1.0));
        if i > 0 {
            sag = sag.max(sag_of(&s.env(up[i - 1], 1.0), &s.env(*x, 1.0), &s.env(0.5 * (up[i - 1] + x), 1.0)));
        }
    }
    s.n_upper = pts.len();
    // TE cap: from the upper contact, through +t, to the lower contact
    let cap = |s: &Section, at: f64, from: Point2, to: Point2, outward: Vector2, count: usize, pts: &mut Vec<Point2>, sag: &mut f64| {
        let c0 = s.c(at);
        let rad = s.r(at);
        let a0 = (from - c0).y.atan2((from - c0).x);
        let a1 = (to - c0).y.atan2((to - c0).x);
        // sweep direction: the one whose midpoint points outward
        let mut sweep = a1 - a0;
        while sweep <= 0.0 {
            sweep += TAU;
        }
        let mid = a0 + 0.5 * sweep;
        if Vector2::new(mid.cos(), mid.sin()).dot(&outward) < 0.0 {
            sweep -= TAU;
        }
        for k in 1..count {
            let a = a0 + sweep * k as f64 / count as f64;
            pts.push(c0 + Vector2::new(a.cos(), a.sin()) * rad);
        }
        *sag = sag.max(rad * (1.0 - (0.5 * sweep.abs() / count as f64).cos()));
    };
    let n_cap_te = ((n as f64 * 0.08) as usize).max(8);
    let n_cap_le = ((n as f64 * 0.12) as usize).max(8);
    cap(&s, len, s.env(len, 1.0), s.env(len, -1.0), s.t(len), n_cap_te, &mut pts, &mut sag);
    s.n_te_cap = pts.len() - s.n_upper;
    // lower side (-n) from TE to LE
    for (i, x) in lo.iter().enumerate().rev() {
        pts.push(s.env(*x, -1.0));
        if i > 0 {
            sag = sag.max(sag_of(&s.env(lo[i - 1], -1.0), &s.env(*x, -1.0), &s.env(0.5 * (lo[i - 1] + x), -1.0)));
        }
    }
    s.n_lower = pts.len() - s.n_upper - s.n_te_cap;
    // LE cap: from the lower contact, through -t, to the upper contact
    cap(&s, 0.0, s.env(0.0, -1.0), s.env(0.0, 1.0), -s.t(0.0), n_cap_le, &mut pts, &mut sag);
    s.local = pts;
    s.sag = sag;
    s.up_params = up;
    s.lo_params = lo;
    s
}

// ---------------------------------------------------------------------------------------------
// configurations

const LOCATORS: [&str; 8] = ["OpenEdge", "OpenIntersectGap", "IntersectEdge", "TraceToMaxCurvature", "FitRadiusEdge", "ConstRadiusEdge", "ConvergeTangentEdge", "RansacRadiusEdge"];

fn locator(k: usize, sec: &Section, tol: f64, at_le: bool) -> Box<dyn EdgeLocate> {
    match k {
        0 => OpenEdge::make(),
        1 => OpenIntersectGap::make(50),
        2 => IntersectEdge::make(),
        3 => TraceToMaxCurvature::make(None),
        4 => FitRadiusEdge::make(None),
        5 => ConstRadiusEdge::make(None),
        6 => ConvergeTangentEdge::make(None),
        _ => {
            let _ = at_le;
            RansacRadiusEdge::make((2.0 * sec.sag).max(tol), 500)
        }
    }
}

/// Locators whose outputs carry through to the measurements without known findings; the
/// analysis-level clauses (maximum thickness, surfaces, gauges, equivariance) are judged for
/// configurations that use only these, so that a finding of one of the other locators is reported
/// once, against that locator, and not again through everything computed from its output.
fn robust(k: usize) -> bool {
    matches!(k, 0 | 1 | 2 | 4)
}

/// Locators built on fitting / curvature heuristics (or on random sampling).  Whatever one of these
/// adds (stations, edge point) is judged with the same clauses as everything else, but the verdict
/// is reported as one clause per locator, so that the known findings of a heuristic (see
/// known_findings.json) are one entry each and not one per way in which its output can be off.
fn heuristic(name: &str) -> bool {
    matches!(name, "TraceToMaxCurvature" | "ConstRadiusEdge" | "ConvergeTangentEdge" | "RansacRadiusEdge")
}

#[derive(Default)]
struct Agg {
    judged: std::collections::BTreeSet<String>,
    fails: std::collections::BTreeMap<String, Vec<String>>,
}

/// judge one clause about what a locator (or the camber extraction) produced
fn locj(c: &mut Ctx, agg: &mut Agg, who: &str, clause: &str, ok: bool, detail: impl FnOnce() -> String) {
    if heuristic(who) {
        agg.judged.insert(who.to_string());
        c.note(&format!("{who}: clause judged inside the aggregate"));
        if !ok {
            c.note(&format!("{who}: {clause} -- failed"));
            agg.fails.entry(who.to_string()).or_default().push(format!("{clause}: {}", detail()));
        }
    } else {
        c.check("AirfoilGeometry::try_analyze", clause, who, ok, detail);
    }
}

fn flush_agg(c: &mut Ctx, agg: Agg) {
    for who in &agg.judged {
        let f = agg.fails.get(who);
        c.check("EdgeLocate", "stations and edge point added by the locator satisfy the inscribed-circle, camber and edge clauses", who, f.is_none(), || f.unwrap().join(" | "));
    }
}

/// the tolerance the locator itself works to (for judging what it adds)
fn locator_tol(k: usize, sec: &Section, tol: f64) -> f64 {
    if k == 7 {
        (2.0 * sec.sag).max(tol)
    } else {
        tol
    }
}

#[derive(Clone)]
struct Config {
    orient: usize, // 0 TMaxFwd, 1 DirectionFwd(LE-wards), 2 DirectionFwd(TE-wards)
    le: usize,
    te: usize,
    face: usize, // 0 Detect, 1 UpperDir(+n side), 2 UpperDir(-n side)
    tol_rel: f64,
}

impl Config {
    fn name(&self) -> String {
        format!("{}/{}+{}/{}", ["TMaxFwd", "DirectionFwd(le)", "DirectionFwd(te)"][self.orient], LOCATORS[self.le], LOCATORS[self.te], ["Detect", "UpperDir(+n)", "UpperDir(-n)"][self.face])
    }
}

struct Outcome {
    geo: AirfoilGeometry,
    /// true if the expected leading edge is the u = 0 end of the generator
    le_is_start: bool,
    /// world direction of the requested / expected upper side at mid camber, if determined
    upper_world: Option<Vector2>,
    steps: u64,
    /// centres of the stations the camber extraction alone produces
    base: Vec<Point2>,
}

/// world direction from the trailing end to the leading end of the generated camber
fn chord_dir(sec: &Section) -> Vector2 {
    sec.to_world(&sec.c(0.0)) - sec.to_world(&sec.c(sec.len))
}

fn analyse(c: &mut Ctx, sec: &Section, section: &Curve2, cfg: &Config, class: &str) -> Option<Outcome> {
    let tol = cfg.tol_rel * sec.len;
    let chord = chord_dir(sec);
    let (s_max, _) = sec.r_max();
    if cfg.orient == 0 {
        // TMaxFwd decides by the position of the largest station along the *extracted* camber line,
        // which stops about one edge radius short of either end.  Where that is within 5% of the
        // middle, or disagrees with the position along the whole camber, the expected orientation is
        // too close to call and the case is not used.
        let frac = section.make_hull().and_then(|h| engeom::airfoil::extract_camber_line(section, &h, Some(tol)).ok()).and_then(|st| {
            let ctr: Vec<Point2> = st.iter().map(|x| x.circle.center).collect();
            let k = (0..st.len()).max_by(|a, b| st[*a].radius().partial_cmp(&st[*b].radius()).unwrap())?;
            let cum: Vec<f64> = std::iter::once(0.0).chain(ctr.windows(2).scan(0.0, |acc, w| { *acc += (w[1] - w[0]).norm(); Some(*acc) })).collect();
            Some(cum[k] / cum[cum.len() - 1])
        });
        let half_max = |a: f64, b: f64| (0..=400).map(|k| sec.r(a + (b - a) * k as f64 / 400.0)).fold(0.0, f64::max);
        let (m1, m2) = (half_max(0.0, 0.5 * sec.len), half_max(0.5 * sec.len, sec.len));
        if (m1 - m2).abs() < 0.03 * m1.max(m2) {
            c.note("TMaxFwd too close to call (case not used)");
            return None;
        }
        if let Some(f) = frac {
            // the extraction may run from either end: compare distances from the middle only
            if (f - 0.5).abs() < 0.05 || (s_max / sec.len - 0.5).abs() < 0.04 {
                c.note("TMaxFwd too close to call (case not used)");
                return None;
            }
        }
    }
    let (orient, le_is_start): (Box<dyn CamberOrient>, bool) = match cfg.orient {
        0 => (TMaxFwd::make(), s_max <= 0.5 * sec.len),
        1 => (DirectionFwd::make(chord), true),
        _ => (DirectionFwd::make(-chord), false),
    };
    // upper direction in the world at mid camber
    let mid = 0.5 * sec.len;
    let n_world = sec.to_world(&(sec.c(mid) + sec.n(mid))) - sec.to_world(&sec.c(mid));
    let (face, upper_world) = match cfg.face {
        // detected = the side the camber bows towards (away from the chord): -n for positive curvature
        0 => (FaceOrient::Detect, if sec.kappa * sec.len > 0.02 { Some(-n_world) } else { None }),
        1 => (FaceOrient::UpperDir(n_world * 3.0), Some(n_world)),
        _ => (FaceOrient::UpperDir(-n_world * 0.5), Some(-n_world)),
    };
    let limit = 2000 * (section.count() as u64 + (1.0 / cfg.tol_rel) as u64);
    let le = locator(cfg.le, sec, tol, true);
    let te = locator(cfg.te, sec, tol, false);
    let (r, steps) = guard_fuel(limit, || AirfoilGeometry::try_analyze(section, tol, orient, le, te, face));
    c.eval();
    let api = "AirfoilGeometry::try_analyze";
    match r {
        Err(p) => {
            if p.fuel_site.is_some() {
                c.check(api, "terminates within the step bound", class, false, || format!("{} after {} steps ({})", p.sig(), limit, cfg.name()));
            } else {
                c.check(api, "terminates within the step bound", class, true, String::new);
                c.check(api, "no-panic", class, false, || format!("{} {} ({})", p.sig(), p.msg, cfg.name()));
            }
            None
        }
        Ok(res) => {
            c.check(api, "terminates within the step bound", class, true, String::new);
            c.maxf("steps / bound", steps as f64 / limit as f64);
            match res {
                Err(e) => {
                    let msg = e.to_string();
                    c.note(&format!("rejected: {} | {}", cfg.name(), msg.chars().take(70).collect::<String>()));
                    c.note(&format!("rejected by configuration le={} te={}", LOCATORS[cfg.le], LOCATORS[cfg.te]));
                    // The generated family is one every locator is applicable to (measured: none of
                    // them but the randomised RansacRadiusEdge ever rejects it), so a rejection is
                    // reported against the stage that raised it.
                    let who = if msg.contains("initial camber line extraction") {
                        "camber-extraction"
                    } else if msg.contains("leading edge") {
                        LOCATORS[cfg.le]
                    } else if msg.contains("trailing edge") && heuristic(LOCATORS[cfg.le]) {
                        // the trailing locator works on what the leading one left behind
                        LOCATORS[cfg.le]
                    } else if msg.contains("trailing edge") {
                        LOCATORS[cfg.te]
                    } else if heuristic(LOCATORS[cfg.le]) {
                        LOCATORS[cfg.le]
                    } else if heuristic(LOCATORS[cfg.te]) {
                        LOCATORS[cfg.te]
                    } else {
                        "analysis"
                    };
                    // (the camber extraction of an open section may legitimately fail next to the gap)
                    // not judged: anything with the randomised locator; the extraction next to an
                    // open end; FitRadiusEdge and OpenIntersectGap (they give up on about 1 section in
                    // 50 000); upper-surface detection on a straight camber line, which has no upper side
                    let detect_undefined = cfg.face == 0 && sec.kappa * sec.len <= 0.02;
                    let judged = cfg.le != 7 && cfg.te != 7 && !(who == "camber-extraction" && sec.cut.is_finite()) && who != "FitRadiusEdge" && who != "OpenIntersectGap" && !detect_undefined;
                    if judged && heuristic(who) {
                        c.check("EdgeLocate", "stations and edge point added by the locator satisfy the inscribed-circle, camber and edge clauses", who, false, || format!("a section of the generated family is rejected: {} ({})", msg.chars().take(160).collect::<String>(), cfg.name()));
                    } else if judged {
                        c.check("AirfoilGeometry::try_analyze", "a section of the generated family is accepted", who, false, || format!("Err: {} ({})", msg.chars().take(160).collect::<String>(), cfg.name()));
                    }
                    None
                }
                Ok(geo) => {
                    c.note(&format!("accepted le={} te={}", LOCATORS[cfg.le], LOCATORS[cfg.te]));
                    if cfg.le != 7 && cfg.te != 7 {
                        for who in [LOCATORS[cfg.le], LOCATORS[cfg.te], "analysis", "camber-extraction"] {
                            if !heuristic(who) {
                                c.check("AirfoilGeometry::try_analyze", "a section of the generated family is accepted", who, true, String::new);
                            }
                        }
                    }
                    let base = section
                        .make_hull()
                        .and_then(|h| engeom::airfoil::extract_camber_line(section, &h, Some(tol)).ok())
                        .map(|v| v.iter().map(|st| st.circle.center).collect())
                        .unwrap_or_default();
                    Some(Outcome { geo, le_is_start, upper_world, steps, base })
                }
            }
        }
    }
}

fn build_curve(c: &mut Ctx, pts: &[Point2], closed: bool) -> Option<Curve2> {
    let tol = 1e-9 * pts.iter().fold(0.0f64, |a, p| a.max(p.coords.norm())).max(1e-3);
    let ccw = c.rng.bool();
    let r = if ccw { Curve2::from_points_ccw(pts, tol, closed) } else { Curve2::from_points(pts, tol, closed) };
    r.ok()
}

fn pick_config(c: &mut Ctx, closed_only: bool) -> Config {
    let closed_locs = [2usize, 3, 4, 5, 6, 7];
    let (le, te) = if closed_only { (*c.rng.pick(&closed_locs), *c.rng.pick(&closed_locs)) } else { (*c.rng.pick(&closed_locs), c.rng.int(0, 1)) };
    Config { orient: c.rng.int(0, 2), le, te, face: c.rng.int(0, 2), tol_rel: *c.rng.pick(&[1e-3, 1e-4, 1e-5]) }
}

/// the analysis tolerance is kept at or above twice the discretisation error of the sampled section
fn tol_above_sag(cfg: &mut Config, sec: &Section) {
    while cfg.tol_rel * sec.len < 2.0 * sec.sag && cfg.tol_rel < 1e-3 {
        cfg.tol_rel *= 10.0;
    }
}

// ---------------------------------------------------------------------------------------------
// judging one accepted analysis

fn judge(c: &mut Ctx, sec: &Section, section: &Curve2, cfg: &Config, out: &Outcome, class: &str, open_te: bool) {
    let api = "AirfoilGeometry::try_analyze";
    let geo = &out.geo;
    let tol = cfg.tol_rel * sec.len;
    let pts = section.points();
    let t5 = 5.0 * tol;
    let delta = 4.0 * sec.sag + 10.0 * tol;
    if !c.check(api, "at least one station", class, !geo.stations.is_empty(), || "no stations".into()) {
        return;
    }
    let mut agg = Agg::default();
    // ---- which stations come from the camber extraction and which were added by an edge locator
    let base: std::collections::HashSet<(u64, u64)> = out.base.iter().map(|p| (p.x.to_bits(), p.y.to_bits())).collect();
    let n = geo.stations.len();
    let is_core: Vec<bool> = geo.stations.iter().map(|st| base.contains(&(st.circle.center.x.to_bits(), st.circle.center.y.to_bits()))).collect();
    let first_core = is_core.iter().position(|x| *x).unwrap_or(n);
    let last_core = is_core.iter().rposition(|x| *x).unwrap_or(0);
    let le_group = LOCATORS[cfg.le].to_string();
    let te_group = LOCATORS[cfg.te].to_string();
    let group_of = |k: usize| -> &str {
        if is_core[k] {
            "camber-extraction"
        } else if k < first_core || (k < last_core && k - first_core < last_core - k) {
            &le_group
        } else {
            &te_group
        }
    };
    if c.verbose {
        println!("  section: len {:e} r_le {:e} r_te {:e} sag {:e} tol {:e}; {} stations, core range {}..={}", sec.len, sec.r_le, sec.r_te, sec.sag, tol, n, first_core, last_core);
        for (k, st) in geo.stations.iter().enumerate() {
            if !is_core[k] || k == first_core || k == last_core {
                let q = sec.to_local(&st.circle.center);
                println!("    station {k} [{}] local centre ({:e}, {:e}) arc position {:e} radius {:e} (law {:e})", group_of(k), q.x, q.y, sec.arc_position(&q), st.radius(), sec.r(sec.arc_position(&q).clamp(0.0, sec.len)));
            }
        }
        for (name, e) in [("leading", &geo.leading_edge), ("trailing", &geo.trailing_edge)] {
            if let Some(e) = e {
                let q = sec.to_local(&e.point);
                println!("    {name} edge point local ({:e}, {:e}); apexes ({:e}, {:e}) / ({:e}, {:e}); geometry {:?}", q.x, q.y, sec.apex_le().x, sec.apex_le().y, sec.apex_te().x, sec.apex_te().y, e.geometry);
            }
        }
        let arcs = section.equivalent_arcs(tol, 4);
        let mut radii: Vec<(f64, usize, usize)> = arcs.iter().map(|(a, b, arc)| (arc.radius(), *a, *b)).collect();
        radii.sort_by(|a, b| a.0.partial_cmp(&b.0).unwrap());
        println!("    equivalent arcs of the whole section (tol {:e}): {} arcs, smallest {:?}", tol, radii.len(), &radii[..radii.len().min(6)]);
    }
    c.note_n("stations from the camber extraction", is_core.iter().filter(|x| **x).count() as u64);
    c.note_n("stations added by edge locators", is_core.iter().filter(|x| !**x).count() as u64);

    // ---- I1, I2, I6 per group: inscribed circles on the known axis
    #[derive(Default)]
    struct G {
        n: usize,
        worst_r: f64,
        worst_contact: f64,
        worst_on: f64,
        same_side: Option<usize>,
        inside: usize,
        worst_axis: f64,
        worst_law: f64,
    }
    let mut groups: std::collections::BTreeMap<String, G> = Default::default();
    for (k, st) in geo.stations.iter().enumerate() {
        let g = groups.entry(group_of(k).to_string()).or_default();
        g.n += 1;
        let ctr = st.circle.center;
        let rad = st.radius();
        let (d, _) = brute_poly2(pts, &ctr);
        g.worst_r = g.worst_r.max((d - rad).abs());
        for cp in [st.contact_pos, st.contact_neg] {
            g.worst_on = g.worst_on.max(brute_poly2(pts, &cp).0);
            g.worst_contact = g.worst_contact.max(((cp - ctr).norm() - rad).abs());
        }
        let q = sec.to_local(&ctr);
        let (sp, dist_axis) = sec.axis_param(&q);
        // opposite sides of the known camber direction at this station
        let sc = sp.clamp(0.0, sec.len);
        let dir = sec.to_world(&(sec.c(sc) + sec.t(sc))) - sec.to_world(&sec.c(sc));
        let s1 = cross2(&dir, &(st.contact_pos - ctr));
        let s2 = cross2(&dir, &(st.contact_neg - ctr));
        // only where the generator has a camber direction and the disc is bitangent: inside the axis
        // range, away from its ends (there the disc touches a whole cap arc)
        let bitangent = sp > 20.0 * tol && sp < sec.len - 20.0 * tol;
        if bitangent && s1 * s2 > 0.0 && s1.abs().min(s2.abs()) > t5 && g.same_side.is_none() {
            g.same_side = Some(k);
        }
        if sp >= 0.0 && sp <= sec.len && sp + 1.5 * sec.r(sp) < sec.cut {
            g.inside += 1;
            g.worst_axis = g.worst_axis.max(dist_axis);
            g.worst_law = g.worst_law.max((rad - sec.r(sp)).abs());
        }
    }
    for (name, g) in &groups {
        let cl = name.as_str();
        let t5 = if cl == "RansacRadiusEdge" { 5.0 * locator_tol(7, sec, tol) } else { t5 };
        let delta = delta.max(2.0 * t5);
        c.maxf(&format!("|distance to section - radius| / core_tol, {cl}"), g.worst_r / tol);
        c.maxf(&format!("contact |distance to centre - radius| / core_tol, {cl}"), g.worst_contact / tol);
        c.maxf(&format!("contact distance to section / core_tol, {cl}"), g.worst_on / tol);
        locj(c, &mut agg, cl, "every station is an inscribed circle (distance from the centre to the section equals the radius)", g.worst_r <= t5, || format!("worst |d - r| = {:e} = {:.1} core_tol ({})", g.worst_r, g.worst_r / tol, cfg.name()));
        locj(c, &mut agg, cl, "contact points lie on the section", g.worst_on <= t5, || format!("worst distance {:e} = {:.1} core_tol ({})", g.worst_on, g.worst_on / tol, cfg.name()));
        locj(c, &mut agg, cl, "contact points are one radius from the centre", g.worst_contact <= t5, || format!("worst {:e} = {:.1} core_tol ({})", g.worst_contact, g.worst_contact / tol, cfg.name()));
        locj(c, &mut agg, cl, "contact points lie on opposite sides of the camber direction", g.same_side.is_none(), || format!("station {:?} of {n} ({})", g.same_side, cfg.name()));
        if g.inside >= 1 {
            c.maxf(&format!("centre distance to the known camber / delta, {cl}"), g.worst_axis / delta);
            c.maxf(&format!("radius error against the law / delta, {cl}"), g.worst_law / delta);
            locj(c, &mut agg, cl, "station centres lie on the known camber curve", g.worst_axis <= delta, || format!("worst distance {:e}, delta {:e} (sag {:e}, core_tol {:e}) ({})", g.worst_axis, delta, sec.sag, tol, cfg.name()));
            locj(c, &mut agg, cl, "station radii follow the known radius law", g.worst_law <= delta, || format!("worst error {:e}, delta {:e} ({})", g.worst_law, delta, cfg.name()));
        }
    }

    // ---- I3: monotone advance (arc position extended along the end tangents; repeated stations and
    // steps back by less than the analysis tolerance are not counted)
    let mut last_s = f64::NEG_INFINITY;
    let mut holder = 0usize;
    let mut mono_bad = None;
    let mut blame = 0usize;
    for (k, st) in geo.stations.iter().enumerate() {
        let s = sec.arc_position(&sec.to_local(&st.circle.center));
        let s_dir = if out.le_is_start { s } else { -s };
        if s_dir < last_s - t5 && mono_bad.is_none() {
            mono_bad = Some((k, s, if out.le_is_start { last_s } else { -last_s }));
            // the station out of place is the one an edge locator added, if either of the two is
            blame = if !is_core[holder] { holder } else { k };
        }
        if s_dir > last_s {
            last_s = s_dir;
            holder = k;
        }
    }
    let mono_class = if mono_bad.is_some() { group_of(blame).to_string() } else { "camber-extraction".to_string() };
    locj(c, &mut agg, &mono_class, "stations advance monotonically from the leading to the trailing edge", mono_bad.is_none(), || {
        format!("station (index, arc position, furthest before) {:?} of {n}, leading edge expected at the {} of the generator ({})", mono_bad, if out.le_is_start { "start" } else { "end" }, cfg.name())
    });
    // maximum thickness
    let (s_max, r_max) = sec.r_max();
    let tm = geo.find_tmax();
    // the stations are discrete: the largest station radius is below the maximum by at most the
    // variation of r over the station spacing; compare with the law at the station's own position
    let (s_tm, _) = sec.axis_param(&sec.to_local(&tm.circle.center));
    let robust_cfg = robust(cfg.le) && robust(cfg.te);
    if !robust_cfg {
        c.note("analysis-level clauses not judged: configuration uses a heuristic locator");
    }
    if robust_cfg {
        c.check(api, "find_tmax is the largest station and lies at the maximum of the radius law", class, (tm.radius() - sec.r(s_tm.clamp(0.0, sec.len))).abs() <= delta && tm.radius() >= r_max - delta - 0.02 * r_max, || {
        format!("tmax radius {:e} at arc position {:e}; law maximum {:e} at {:e} ({})", tm.radius(), s_tm, r_max, s_max, cfg.name())
    });
    }

    // ---- I4: edge points
    let le_apex = sec.to_world(&if out.le_is_start { sec.apex_le() } else { sec.apex_te() });
    let te_apex = sec.to_world(&if out.le_is_start { sec.apex_te() } else { sec.apex_le() });
    let edge_r = |is_le: bool| if is_le == out.le_is_start { sec.r_le } else { sec.r_te };
    for (is_le, edge, apex) in [(true, &geo.leading_edge, le_apex), (false, &geo.trailing_edge, te_apex)] {
        let which = if is_le { "leading" } else { "trailing" };
        let Some(e) = edge else {
            c.note(&format!("{which} edge not located (None) by {}", LOCATORS[if is_le { cfg.le } else { cfg.te }]));
            continue;
        };
        let cam_end = if is_le { geo.camber.at_front().point() } else { geo.camber.at_back().point() };
        locj(c, &mut agg, LOCATORS[if is_le { cfg.le } else { cfg.te }], "edge point is the end of the camber curve", (cam_end - e.point).norm() <= section.tol().max(1e-12 * sec.len) * 4.0, || format!("{which}: camber end {:?}, edge point {:?} ({})", cam_end, e.point, cfg.name()));
        match e.geometry {
            EdgeGeometry::Open => {
                // an open edge point is not on the section; it belongs to the requested end
                let st = if is_le { geo.stations.first().unwrap() } else { geo.stations.last().unwrap() };
                let other = if is_le { geo.stations.last().unwrap() } else { geo.stations.first().unwrap() };
                let d_own = (e.point - st.circle.center).norm();
                let d_other = (e.point - other.circle.center).norm();
                locj(c, &mut agg, LOCATORS[if is_le { cfg.le } else { cfg.te }], "open edge point belongs to the requested end of the camber", d_own <= d_other, || format!("{which}: {:e} from its own end station, {:e} from the opposite one ({})", d_own, d_other, cfg.name()));
            }
            _ => {
                let d = brute_poly2(pts, &e.point).0;
                c.maxf("edge point distance to section / core_tol", d / tol);
                let loc_e = if is_le { cfg.le } else { cfg.te };
                locj(c, &mut agg, LOCATORS[loc_e], "edge point lies on the section", d <= 5.0 * locator_tol(loc_e, sec, tol) + 2.0 * sec.sag, || format!("{which}: {:e} = {:.1} core_tol from the section ({})", d, d / tol, cfg.name()));
                let da = (e.point - apex).norm();
                c.maxf("edge point distance to the known apex / edge radius", da / edge_r(is_le));
                let loc = if is_le { cfg.le } else { cfg.te };
                if matches!(loc, 2 | 4 | 5 | 7) {
                    // these locators intersect the extended camber line with the section
                    locj(c, &mut agg, LOCATORS[loc], "edge point lies where the extended camber curve leaves the section (within half an edge radius of the apex)", da <= 0.5 * edge_r(is_le) + delta, || format!("{which}: {:e} from the apex, edge radius {:e} ({})", da, edge_r(is_le), cfg.name()));
                }
            }
        }
    }

    flush_agg(c, agg);

    // ---- I5: surfaces
    if !robust_cfg {
        // nothing further
    } else if let (Some(up), Some(lo)) = (&geo.upper, &geo.lower) {
        let per = section.length();
        let total = up.length() + lo.length();
        let gap = if open_te { 0.0 } else { 0.0 };
        c.check(api, "upper and lower surfaces partition the perimeter (lengths add up)", class, (total + gap - per).abs() <= 8.0 * tol.max(section.tol()), || format!("upper {:e} + lower {:e} = {:e}, perimeter {:e} ({})", up.length(), lo.length(), total, per, cfg.name()));
        let mut worst = 0.0f64;
        for p in up.points().iter().chain(lo.points().iter()) {
            worst = worst.max(brute_poly2(pts, p).0);
        }
        c.check(api, "surface vertices lie on the section", class, worst <= t5, || format!("worst distance {:e} ({})", worst, cfg.name()));
        if let Some(uw) = out.upper_world {
            // which surface is on the uw side: compare the mean offset of the two curves along uw
            let mid_c = geo.camber.at_fraction(0.5).map(|s| s.point()).unwrap_or(geo.camber.at_front().point());
            let off = |cv: &Curve2| {
                let p = cv.at_fraction(0.5).map(|s| s.point()).unwrap_or(cv.at_front().point());
                (p - mid_c).dot(&uw)
            };
            let (ou, ol) = (off(up), off(lo));
            c.check(api, "the upper surface is on the requested or detected side", class, ou > ol, || format!("upper offset {:e}, lower offset {:e} along the upper direction ({})", ou, ol, cfg.name()));
        } else {
            c.skip("AirfoilGeometry::try_analyze :: the upper surface is on the requested or detected side");
        }
        // the two surfaces meet at the section points closest to the edge points
        if let (Some(le), Some(te)) = (&geo.leading_edge, &geo.trailing_edge) {
            if !matches!(le.geometry, EdgeGeometry::Open) && !matches!(te.geometry, EdgeGeometry::Open) {
                let ends = [up.at_front().point(), up.at_back().point(), lo.at_front().point(), lo.at_back().point()];
                let near = |p: &Point2| ends.iter().map(|e| (e - p).norm()).fold(f64::INFINITY, f64::min);
                let worst = near(&le.point).max(near(&te.point));
                c.check(api, "the surfaces meet at the edge points", class, worst <= t5, || format!("an edge point is {:e} from the nearest surface end ({})", worst, cfg.name()));
            }
        }
        // ---- gauge thicknesses
        if !(s_tm > 20.0 * tol && s_tm < sec.len - 20.0 * tol) {
            // the largest circle is an end cap (monotone radius law): its contact points are anywhere on the cap
            c.skip("AirfoilGeometry::get_thickness_max :: is the contact chord of the largest inscribed circle");
        } else if let Ok(d) = geo.get_thickness_max() {
            // the distance between the two contact points of the largest circle: 2 r sqrt(1 - r'^2)
            // at that station (2 r where the radius law has an interior maximum)
            let v = (d.a - d.b).norm();
            let sc = s_tm.clamp(0.0, sec.len);
            let want = 2.0 * sec.r(sc) * (1.0 - sec.dr(sc).powi(2)).sqrt();
            c.maxf("get_thickness_max error / (2 delta)", (v - want).abs() / (2.0 * delta));
            c.check("AirfoilGeometry::get_thickness_max", "is the contact chord of the largest inscribed circle", class, (v - want).abs() <= 2.0 * delta && v <= 2.0 * r_max + 2.0 * delta, || format!("{:e} against {:e} (largest station radius {:e}, law maximum {:e}) ({})", v, want, tm.radius(), r_max, cfg.name()));
        }
        let cl = geo.camber.length();
        for _ in 0..3 {
            let x = cl * c.rng.range(0.2, 0.8);
            let x = if c.rng.bool() { x } else { x - cl }; // negative = measured from the trailing edge
            if let Ok(d) = geo.get_thickness(AfGage::OnCamber(x)) {
                let l = if x < 0.0 { cl + x } else { x };
                let p = geo.camber.at_length(l).unwrap().point();
                let (s, _) = sec.axis_param(&sec.to_local(&p));
                if let Some(want) = sec.thickness_normal(s.clamp(0.0, sec.len)) {
                    let v = (d.a - d.b).norm();
                    // the library measures along the normal of its own polyline camber: allow the slope error
                    let slack = 2.0 * delta + 0.02 * want;
                    c.maxf("OnCamber thickness error / slack", (v - want).abs() / slack);
                    c.check("AirfoilGeometry::get_thickness", "OnCamber gauge recovers the known thickness", class, (v - want).abs() <= slack, || format!("at camber length {x:e}: {:e} against {:e} ({})", v, want, cfg.name()));
                }
            }
        }
        for _ in 0..2 {
            let from_le = c.rng.bool();
            let rad = cl * c.rng.range(0.15, 0.6);
            let edge = if from_le { &geo.leading_edge } else { &geo.trailing_edge };
            let Some(e) = edge else { continue };
            if let Ok(d) = geo.get_thickness(AfGage::Radius(if from_le { rad } else { -rad })) {
                let centre = sec.to_local(&e.point);
                let gen_from_start = from_le == out.le_is_start;
                if let Some(want) = sec.thickness_radius(&centre, rad, gen_from_start) {
                    let v = (d.a - d.b).norm();
                    let slack = 2.0 * delta + 0.01 * want;
                    c.maxf("Radius gauge thickness error / slack", (v - want).abs() / slack);
                    c.check("AirfoilGeometry::get_thickness", "Radius gauge recovers the known thickness", class, (v - want).abs() <= slack, || format!("radius {rad:e} from the {} edge: {:e} against {:e} ({})", if from_le { "leading" } else { "trailing" }, v, want, cfg.name()));
                }
            }
        }
    } else {
        c.note("surfaces not produced (an edge was not located)");
    }
    c.maxf("stations per analysis", n as f64);
    if n >= 5 {
        c.distinct(&(sec.len.to_bits(), sec.kappa.to_bits(), cfg.le, cfg.te, cfg.orient, cfg.face, (cfg.tol_rel * 1e6) as u64));
    }
}

// ---------------------------------------------------------------------------------------------
// streams

fn start_rotated(c: &mut Ctx, pts: &[Point2]) -> Vec<Point2> {
    let k = c.rng.int(0, pts.len() - 1);
    let mut v = pts[k..].to_vec();
    v.extend_from_slice(&pts[..k]);
    v
}

fn run_closed(c: &mut Ctx) {
    let sec = make_section(c);
    let mut cfg = pick_config(c, true);
    tol_above_sag(&mut cfg, &sec);
    let cfg = cfg;
    let class = if sec.kappa == 0.0 { "straight-camber" } else { "curved-camber" };
    c.family(&format!("closed/{class}/le={}/te={}", LOCATORS[cfg.le], LOCATORS[cfg.te]));
    c.set_case(json!({"section": sec.json(), "config": cfg.name(), "core_tol_rel": cfg.tol_rel}));
    let world = sec.world_points();
    let mut pts = start_rotated(c, &world);
    if c.rng.bool() {
        pts.reverse();
    }
    let Some(section) = build_curve(c, &pts, true) else {
        c.note("generator: curve construction failed");
        return;
    };
    if let Some(out) = analyse(c, &sec, &section, &cfg, class) {
        judge(c, &sec, &section, &cfg, &out, class, false);
    }
}

fn run_open(c: &mut Ctx) {
    let sec = make_section(c);
    let mut cfg = pick_config(c, false);
    // The open end is the trailing cap of the generator.  Either it is the trailing edge of the
    // analysis, or (DirectionFwd pointing the other way) its leading edge: then the open-edge
    // locator works at the front of the station list.
    tol_above_sag(&mut cfg, &sec);
    let open_is_leading = c.rng.chance(0.4);
    if open_is_leading {
        cfg.orient = 2;
        std::mem::swap(&mut cfg.le, &mut cfg.te);
    } else {
        cfg.orient = if c.rng.bool() { 1 } else { 0 };
    }
    let class = match (sec.kappa == 0.0, open_is_leading) {
        (true, false) => "open-trailing/straight-camber",
        (false, false) => "open-trailing/curved-camber",
        (true, true) => "open-leading/straight-camber",
        (false, true) => "open-leading/curved-camber",
    };
    c.family(&format!("{class}/le={}/te={}", LOCATORS[cfg.le], LOCATORS[cfg.te]));
    c.set_case(json!({"section": sec.json(), "config": cfg.name(), "core_tol_rel": cfg.tol_rel, "open": "trailing cap removed"}));
    // remove the trailing cap and a little of both sides: start after the cap, end before it
    let world = sec.world_points();
    let cut = c.rng.range(0.02, 0.1);
    let keep_u = ((sec.n_upper as f64) * (1.0 - cut)) as usize;
    let skip_l = ((sec.n_lower as f64) * cut) as usize;
    let lower_start = sec.n_upper + sec.n_te_cap + skip_l;
    let mut sec = sec;
    sec.cut = sec.up_params[keep_u.saturating_sub(1).min(sec.up_params.len() - 1)].min(sec.lo_params[(sec.lo_params.len() - 1).saturating_sub(skip_l)]);
    let sec = sec;
    let mut pts: Vec<Point2> = world[lower_start..].to_vec(); // lower side TE->LE, LE cap
    pts.extend_from_slice(&world[..keep_u]); // upper side LE->TE
    if c.rng.bool() {
        pts.reverse();
    }
    let tol = 1e-9 * sec.len;
    let Ok(section) = Curve2::from_points(&pts, tol, false) else {
        c.note("generator: curve construction failed");
        return;
    };

    if let Some(out) = analyse(c, &sec, &section, &cfg, class) {
        judge(c, &sec, &section, &cfg, &out, class, true);
    }
}

fn run_equiv(c: &mut Ctx) {
    let sec = make_section(c);
    let mut cfg = pick_config(c, true);
    cfg.tol_rel = *c.rng.pick(&[1e-3, 1e-4]);
    // half of the twins use the strict locators (all clauses), the other half any deterministic
    // locator (acceptance only)
    let strict_twin = c.rng.bool();
    if strict_twin {
        cfg.le = *c.rng.pick(&[2usize, 4]);
        cfg.te = *c.rng.pick(&[2usize, 4]);
    } else {
        cfg.le = *c.rng.pick(&[2usize, 3, 4, 5, 6]);
        cfg.te = *c.rng.pick(&[2usize, 3, 4, 5, 6]);
    }
    tol_above_sag(&mut cfg, &sec);
    let class = if sec.kappa == 0.0 { "straight-camber" } else { "curved-camber" };
    c.family(&format!("equivariance/{class}/le={}/te={}", LOCATORS[cfg.le], LOCATORS[cfg.te]));
    let world = sec.world_points();
    let tol = cfg.tol_rel * sec.len;
    // twin: rigid motion, reversed order, rotated start
    let kind = c.rng.int(0, 2);
    let motion = gen::iso2(&mut c.rng, 2.0 * sec.len);
    let mut sec2 = sec.clone();
    let twin_pts: Vec<Point2> = match kind {
        0 => {
            sec2.pose = motion * sec.pose;
            world.iter().map(|p| motion * p).collect()
        }
        1 => world.iter().rev().cloned().collect(),
        _ => start_rotated(c, &world),
    };
    let kind_name = ["rigid motion", "reversed vertex order", "rotated start vertex"][kind];
    c.set_case(json!({"section": sec.json(), "config": cfg.name(), "core_tol_rel": cfg.tol_rel, "twin": kind_name, "motion": gen::jiso2(&motion)}));
    let ctol = 1e-9 * sec.len;
    let (Ok(s1), Ok(s2)) = (Curve2::from_points(&world, ctol, true), Curve2::from_points(&twin_pts, ctol, true)) else {
        c.note("generator: curve construction failed");
        return;
    };
    let a = analyse(c, &sec, &s1, &cfg, class);
    let b = analyse(c, &sec2, &s2, &cfg, class);
    let api = "AirfoilGeometry::try_analyze";
    let (a, b) = match (a, b) {
        (Some(a), Some(b)) => (a, b),
        (None, None) => {
            c.note("equivariance: both rejected");
            return;
        }
        _ => {
            let detect_undefined = cfg.face == 0 && sec.kappa * sec.len <= 0.02;
            let gives_up = |k: usize| k == 4; // FitRadiusEdge (see the acceptance clause)
            if detect_undefined || gives_up(cfg.le) || gives_up(cfg.te) {
                c.note("equivariance: accepted only one of the twins (configuration whose acceptance is not judged)");
            } else if cfg.le == 6 || cfg.te == 6 {
                c.check("EdgeLocate", "stations and edge point added by the locator satisfy the inscribed-circle, camber and edge clauses", "ConvergeTangentEdge", false, || format!("accepted only one of the twins ({kind_name}, {})", cfg.name()));
            } else {
                c.check("AirfoilGeometry::try_analyze", "accepted alike after a rigid motion, vertex-order reversal or start-vertex rotation", class, false, || format!("accepted only one of the twins ({kind_name}, {})", cfg.name()));
            }
            return;
        }
    };
    c.check("AirfoilGeometry::try_analyze", "accepted alike after a rigid motion, vertex-order reversal or start-vertex rotation", class, true, String::new);
    if !strict_twin {
        c.distinct(&(sec.len.to_bits(), kind, cfg.le, cfg.te));
        return;
    }
    let map = |p: &Point2| if kind == 0 { motion * p } else { *p };
    let slack = 20.0 * tol + 4.0 * sec.sag;
    let eq = |c: &mut Ctx, what: &str, x: f64, y: f64| {
        c.maxf(&format!("equivariance: {what} difference / slack"), (x - y).abs() / slack);
        c.check(api, &format!("{what} is unchanged by a rigid motion, vertex-order reversal or start-vertex rotation"), class, (x - y).abs() <= slack, || format!("{x:e} against {y:e} after {kind_name} ({})", cfg.name()));
    };
    eq(c, "maximum thickness", a.geo.find_tmax().radius(), b.geo.find_tmax().radius());
    eq(c, "camber length", a.geo.camber.length(), b.geo.camber.length());
    for (what, ea, eb) in [("leading edge point", &a.geo.leading_edge, &b.geo.leading_edge), ("trailing edge point", &a.geo.trailing_edge, &b.geo.trailing_edge)] {
        match (ea, eb) {
            (Some(x), Some(y)) => {
                let d = (map(&x.point) - y.point).norm();
                c.maxf(&format!("equivariance: {what} difference / slack"), d / slack);
                c.check(api, &format!("{what} is unchanged by a rigid motion, vertex-order reversal or start-vertex rotation"), class, d <= slack, || format!("moved by {d:e} after {kind_name} ({})", cfg.name()));
            }
            (None, None) => {}
            _ => {
                c.check(api, &format!("{what} is unchanged by a rigid motion, vertex-order reversal or start-vertex rotation"), class, false, || format!("located in only one of the twins ({kind_name}, {})", cfg.name()));
            }
        }
    }
    let cl = a.geo.camber.length();
    let x = cl * c.rng.range(0.25, 0.75);
    if let (Ok(da), Ok(db)) = (a.geo.get_thickness(AfGage::OnCamber(x)), b.geo.get_thickness(AfGage::OnCamber(x))) {
        eq(c, "OnCamber gauge thickness", (da.a - da.b).norm(), (db.a - db.b).norm());
    }
    let _ = (a.steps, b.steps);
    c.distinct(&(sec.len.to_bits(), kind, cfg.le, cfg.te));
}


// ---------------------------------------------------------------------------------------------
// the front flag: a locator must find the same edge at a given physical end of the section whether
// that end is the leading (front of the station list) or the trailing one (back)

fn run_front_back(c: &mut Ctx) {
    let mut sec = make_section(c);
    let open = c.rng.chance(0.3);
    let x = if open { c.rng.int(0, 1) } else { *c.rng.pick(&[2usize, 3, 4, 5, 6]) };
    let other = *c.rng.pick(&[2usize, 4]);
    let mut base = Config { orient: 1, le: x, te: other, face: c.rng.int(1, 2), tol_rel: *c.rng.pick(&[1e-3, 1e-4]) };
    tol_above_sag(&mut base, &sec);
    let class = LOCATORS[x];
    c.family(&format!("front-back/{class}/{}", if open { "open" } else { "closed" }));
    c.set_case(json!({"section": sec.json(), "locator": class, "other_locator": LOCATORS[other], "core_tol_rel": base.tol_rel}));
    let world = sec.world_points();
    let ctol = 1e-9 * sec.len;
    // the locator under test works at the start end of the generator (closed sections) or at the
    // open end (the removed trailing cap)
    let (section, cfg_front, cfg_back) = if open {
        let cut = c.rng.range(0.02, 0.1);
        let keep_u = ((sec.n_upper as f64) * (1.0 - cut)) as usize;
        let skip_l = ((sec.n_lower as f64) * cut) as usize;
        let lower_start = sec.n_upper + sec.n_te_cap + skip_l;
        let mut pts: Vec<Point2> = world[lower_start..].to_vec();
        pts.extend_from_slice(&world[..keep_u]);
        let Ok(section) = Curve2::from_points(&pts, ctol, false) else { return };
        sec.cut = sec.up_params[keep_u.saturating_sub(1).min(sec.up_params.len() - 1)].min(sec.lo_params[(sec.lo_params.len() - 1).saturating_sub(skip_l)]);
        // open end = generator end: trailing when the leading edge is the start (orient 1), leading when orient 2
        (section, Config { orient: 2, le: x, te: other, ..base.clone() }, Config { orient: 1, le: other, te: x, ..base.clone() })
    } else {
        let Ok(section) = Curve2::from_points(&world, ctol, true) else { return };
        (section, Config { orient: 1, le: x, te: other, ..base.clone() }, Config { orient: 2, le: other, te: x, ..base.clone() })
    };
    let a = analyse(c, &sec, &section, &cfg_front, class);
    let b = analyse(c, &sec, &section, &cfg_back, class);
    let tol = base.tol_rel * sec.len;
    let slack = 20.0 * tol + 4.0 * sec.sag;
    let mut agg = Agg::default();
    match (a, b) {
        (None, None) => c.note(&format!("front-back: {class} rejected at both ends")),
        (Some(_), None) | (None, Some(_)) => {
            locj(c, &mut agg, class, "accepts the section alike at the front and at the back of the camber line", false, || format!("accepted at one end only ({} / {})", cfg_front.name(), cfg_back.name()));
        }
        (Some(a), Some(b)) => {
            locj(c, &mut agg, class, "accepts the section alike at the front and at the back of the camber line", true, String::new);
            let (ea, eb) = (&a.geo.leading_edge, &b.geo.trailing_edge);
            match (ea, eb) {
                (Some(p), Some(q)) => {
                    let d = (p.point - q.point).norm();
                    c.maxf(&format!("front-back edge point difference / slack, {class}"), d / slack);
                    locj(c, &mut agg, class, "finds the same edge point at the front and at the back of the camber line", d <= slack, || format!("edge points differ by {d:e} (slack {slack:e}): front {:?}, back {:?}", p.point, q.point));
                    let same_kind = std::mem::discriminant(&p.geometry) == std::mem::discriminant(&q.geometry);
                    locj(c, &mut agg, class, "reports the same kind of edge geometry at the front and at the back", same_kind, || format!("{:?} / {:?}", p.geometry, q.geometry));
                }
                (None, None) => c.note("front-back: edge not located at either end"),
                _ => {
                    locj(c, &mut agg, class, "finds the same edge point at the front and at the back of the camber line", false, || "located at one end only".into());
                }
            }
            if c.verbose {
                for (nm, g) in [("front", &a.geo), ("back", &b.geo)] {
                    let loc = |p: &Point2| {
                        let q = sec.to_local(p);
                        format!("({:.6e}, {:.6e})", q.x, q.y)
                    };
                    println!("  {nm}: {} stations; first {} r {:.5e}; last {} r {:.5e}; le {:?} te {:?}", g.stations.len(), loc(&g.stations.first().unwrap().circle.center), g.stations.first().unwrap().radius(), loc(&g.stations.last().unwrap().circle.center), g.stations.last().unwrap().radius(), g.leading_edge.as_ref().map(|e| loc(&e.point)), g.trailing_edge.as_ref().map(|e| loc(&e.point)));
                }
            }
            // the station lists cover the same part of the camber (first / last centres swap roles);
            // a locator may keep or drop one station more at one end, so the comparison is coarse: it
            // is there to notice stations added to, or removed from, the wrong end of the list
            let (fa, la) = (a.geo.stations.first().unwrap().circle.center, a.geo.stations.last().unwrap().circle.center);
            let (fb, lb) = (b.geo.stations.first().unwrap().circle.center, b.geo.stations.last().unwrap().circle.center);
            let d = (fa - lb).norm().max((la - fb).norm());
            locj(c, &mut agg, class, "leaves station lists that mirror each other (within 5% of the camber length)", d <= 0.05 * sec.len, || format!("end stations differ by {d:e}"));
        }
    }
    // for a heuristic locator the verdict joins the aggregate clause of that locator
    for who in &agg.judged {
        let f = agg.fails.get(who);
        c.check("EdgeLocate", "stations and edge point added by the locator satisfy the inscribed-circle, camber and edge clauses", who, f.is_none(), || f.unwrap().join(" | "));
    }
    c.distinct(&(sec.len.to_bits(), x, other, open));
}
