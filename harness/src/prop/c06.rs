//! C06 — Line–polyline intersection search is complete and sound.
//!
//! Oracles: (1) definitional — the per-edge primitive applied to every edge, sorted and
//! de-duplicated, must equal the accelerated (QBVH) search; (2) independent soundness;
//! (3) independent completeness computed with the harness's own line/segment arithmetic.

use crate::gen;
use crate::oracle::{cross2, dist_seg2, PolyModel2, U};
use crate::report::{guard, Ctx};
use crate::{Spec, Stream};
use engeom::common::Intersection;
use engeom::geom2::polyline2::{farthest_point_direction_distance, max_intersection, polyline_intersections, ray_intersect_with_edge, spanning_ray};
use engeom::geom2::{Line2, Ray2};
use engeom::{Curve2, Point2, SurfacePoint2, Vector2};
use parry2d_f64::shape::Polyline;
use serde_json::json;
use std::f64::consts::{PI, TAU};

pub fn spec() -> Spec {
    Spec {
        id: "C06",
        rule: "polylines of 5..5000 edges in layouts that shape the bounding-volume tree differently (compact, strips along x / y / diagonal, spirals, staircases with degenerate boxes, clusters with far outliers, \
               the C01 families); rays: every multiple of 15 degrees, exact axis directions incl. -0.0 components, |dir| in [0.1,10], origins inside / outside / far behind / on a vertex / on an edge, \
               lines through two vertices, lines parallel to an edge at offsets 0, +-1e-9, +-1e-3. Non-trivial = at least one crossing and >= 8 edges; distinct = hash(curve fingerprint, ray bits).",
        assumptions: &[
            "definitional oracle uses the public per-edge primitive ray_intersect_with_edge on a Polyline rebuilt from the same stored vertices",
            "independent completeness: an edge whose end points lie on opposite sides of the line by more than 1e-9*(extent+offset) and whose |det| >= 1e-10 (library parallel threshold 1e-12) must be represented within 1e-8+eps",
            "independent soundness is judged when the crossing angle has sin > 1e-6",
        ],
        streams: vec![Stream { name: "rays", quick: 25_000, thorough: 800_000, run: run }],
        required: vec![
            ("Curve2::ray_intersections :: equals per-edge list", 10_000),
            ("Curve2::ray_intersections :: independent completeness", 10_000),
            ("Curve2::ray_intersections :: independent soundness", 10_000),
            ("Curve2::try_create_spanning_ray :: Some iff exactly two crossings", 10_000),
            ("max_intersection", 5000),
        ],
        exhaustive_note: None,
    }
}

fn layout(c: &mut Ctx, n: usize) -> (Vec<[f64; 2]>, &'static str) {
    let r = &mut c.rng;
    match r.int(0, 13) {
        0 => {
            // long strip along x with small y noise
            ((0..n).map(|i| [i as f64 / n as f64, 0.01 * r.range(-1.0, 1.0)]).collect(), "strip-x")
        }
        1 => ((0..n).map(|i| [0.01 * r.range(-1.0, 1.0), i as f64 / n as f64]).collect(), "strip-y"),
        2 => ((0..n).map(|i| [i as f64 / n as f64 + 0.005 * r.range(-1.0, 1.0), i as f64 / n as f64]).collect(), "diagonal"),
        3 => {
            // axis aligned staircase: every edge has a degenerate bounding box
            let mut p = [0.0, 0.0];
            let s = 1.0 / n as f64;
            let mut v = Vec::new();
            for i in 0..n {
                v.push(p);
                if i % 2 == 0 {
                    p[0] += s * r.range(0.5, 1.5);
                } else {
                    p[1] += s * r.range(0.5, 1.5);
                }
            }
            (v, "staircase")
        }
        4 => {
            // compact cluster with a few far outliers
            let mut v: Vec<[f64; 2]> = (0..n).map(|_| [0.05 * r.range(-1.0, 1.0), 0.05 * r.range(-1.0, 1.0)]).collect();
            for _ in 0..3 {
                let k = r.int(0, n - 1);
                v[k] = [r.range(-1.0, 1.0), r.range(-1.0, 1.0)];
            }
            (v, "cluster-outliers")
        }
        5 => {
            // closed blob (airfoil-like use): smooth closed outline
            let (a, b) = (r.range(0.2, 0.5), r.range(0.05, 0.5));
            let ph = r.range(0.0, TAU);
            let mut v: Vec<[f64; 2]> = (0..n).map(|i| {
                let t = TAU * i as f64 / n as f64;
                let rad = 1.0 + 0.15 * (3.0 * t + ph).sin();
                [a * rad * t.cos(), b * rad * t.sin()]
            }).collect();
            let f = v[0];
            v.push(f);
            (v, "closed-blob")
        }
        k => {
            let fam = k - 6; // 0..7 -> C01 families
            (gen::poly2(r, fam, n), gen::POLY2_FAMILIES[fam % gen::POLY2_FAMILIES.len()])
        }
    }
}

fn run(c: &mut Ctx) {
    let n = if c.tiny {
        c.rng.int(6, 40)
    } else if c.thorough && c.rng.chance(0.02) {
        5000
    } else if c.rng.chance(0.05) {
        c.rng.int(1000, 2500)
    } else {
        c.rng.log_range(6.0, 400.0) as usize
    };
    let (raw, fam) = layout(c, n);
    let scale = if c.rng.chance(0.4) { c.rng.log_range(1e-2, 1e2) } else { c.rng.range(0.5, 3.0) };
    let off = if c.rng.chance(0.2) { [c.rng.range(-100.0, 100.0), c.rng.range(-100.0, 100.0)] } else { [0.0, 0.0] };
    // keep axis-aligned layouts axis-aligned half of the time
    let rot = if c.rng.bool() { 0.0 } else { c.rng.range(0.0, TAU) };
    let pts = gen::transform2(&raw, scale, rot, off);
    let tol = 1e-9 * scale;
    let Ok(Ok(curve)) = guard(|| Curve2::from_points(&pts, tol, false)) else { return };
    let v = curve.points().to_vec();
    let ne = v.len() - 1;
    let m = PolyModel2::new(&v);
    let ext = m.extent().max(1e-300);
    let size = ext + m.offset();
    let line = Polyline::new(v.clone(), None);
    c.family(&format!("rays/{fam}"));
    c.note(&format!("edges/{}", match ne { 0..=15 => "<=15", 16..=63 => "16-63", 64..=255 => "64-255", 256..=1023 => "256-1023", _ => ">=1024" }));
    let class = fam;

    let nrays = if ne > 1000 { 6 } else { 16 };
    for k in 0..nrays {
        // ---- the ray
        let (ray, kind): (Ray2, &str) = {
            let r = &mut c.rng;
            let i = r.int(0, ne - 1);
            let (a, b) = (v[i], v[i + 1]);
            let mid = a + (b - a) * r.f();
            let ctr = v[r.int(0, ne)];
            let mag = r.log_range(0.1, 10.0);
            let dir_any = |r: &mut crate::rng::Rng| {
                if r.bool() {
                    let a = (r.int(0, 23) as f64) * PI / 12.0;
                    Vector2::new(a.cos(), a.sin())
                } else {
                    gen::unit2(r)
                }
            };
            match k % 9 {
                0 => {
                    // exact axis directions, including negative zero components
                    let d = *r.pick(&[[1.0, 0.0], [-1.0, 0.0], [0.0, 1.0], [0.0, -1.0], [1.0, -0.0], [-0.0, 1.0], [-1.0, -0.0], [-0.0, -1.0]]);
                    let o = match r.int(0, 2) {
                        0 => Point2::new(ctr.x, ctr.y),                                   // through a vertex coordinate
                        1 => Point2::new(mid.x + ext * r.range(-0.3, 0.3), mid.y + ext * r.range(-0.3, 0.3)),
                        _ => Point2::new(ctr.x + 2.0 * ext, ctr.y + ext * r.range(-0.5, 0.5)),
                    };
                    (Ray2::new(o, Vector2::new(d[0], d[1]) * mag), "axis")
                }
                1 => (Ray2::new(Point2::new(mid.x + ext * r.range(-0.5, 0.5), mid.y + ext * r.range(-0.5, 0.5)), dir_any(r) * mag), "inside"),
                2 => {
                    // far behind: every crossing has negative parameter
                    let d = dir_any(r);
                    (Ray2::new(mid + d * (10.0 * ext), d * mag), "behind")
                }
                3 => {
                    // origin exactly on a vertex; the two end vertices of the curve are favoured
                    let k = match r.int(0, 3) {
                        0 => 0,
                        1 => ne,
                        _ => r.int(0, ne),
                    };
                    (Ray2::new(v[k], dir_any(r) * mag), "origin-on-vertex")
                }
                4 => (Ray2::new(mid, dir_any(r) * mag), "origin-on-edge"),
                5 => {
                    // through two vertices
                    let w = v[r.int(0, ne)];
                    let d = w - ctr;
                    if d.norm() > 1e-6 * ext {
                        (Ray2::new(ctr - d * r.range(0.0, 2.0), d.normalize() * mag), "through-two-vertices")
                    } else {
                        (Ray2::new(ctr, dir_any(r) * mag), "origin-on-vertex")
                    }
                }
                6 => {
                    // parallel to an edge at a small offset
                    let e = (b - a).normalize();
                    let nrm = Vector2::new(-e.y, e.x);
                    let offs = *r.pick(&[0.0, 1e-9, -1e-9, 1e-3, -1e-3, 1e-6]) * ext;
                    (Ray2::new(a + nrm * offs - e * (ext * r.range(0.0, 1.0)), e * mag * r.sign()), "parallel-to-edge")
                }
                7 => {
                    // crossing an edge at a shallow angle: |dir x edge| from just above the point
                    // where the crossing stops being decidable up to 1e-4 of the curve size
                    let e = b - a;
                    let target = size * r.log_range(3e-9, 1e-4);
                    let sin = (target / e.norm()).min(0.5);
                    let th = sin.asin() * r.sign();
                    let d = Vector2::new(e.x * th.cos() - e.y * th.sin(), e.x * th.sin() + e.y * th.cos()).normalize();
                    let p = a + e * r.range(0.3, 0.7);
                    (Ray2::new(p - d * (e.norm() * r.range(0.0, 2.0)), d), "shallow-crossing")
                }
                _ => {
                    let d = dir_any(r);
                    (Ray2::new(Point2::new(ctr.x + 3.0 * ext * r.range(-1.0, 1.0), ctr.y + 3.0 * ext * r.range(-1.0, 1.0)), d * mag), "outside")
                }
            }
        };
        if k == 0 {
            c.set_case(json!({"layout": fam, "edges": ne, "scale": scale, "points": gen::j2(&v), "ray": {"origin": [ray.origin.x, ray.origin.y], "dir": [ray.dir.x, ray.dir.y]}, "kind": kind}));
        }
        c.note(&format!("ray/{kind}"));

        // ---- the call under observation
        let got = match guard(|| curve.ray_intersections(&ray)) {
            Ok(g) => g,
            Err(p) => {
                c.check("Curve2::ray_intersections", "no-panic", class, false, || format!("{} {} ({kind})", p.sig(), p.msg));
                continue;
            }
        };
        c.eval();

        // (1) definitional list
        let mut per_edge: Vec<(f64, usize)> = Vec::new();
        for i in 0..ne {
            if let Some(t) = ray_intersect_with_edge(&line, &ray, i) {
                per_edge.push((t, i));
            }
        }
        per_edge.sort_by(|a, b| a.0.partial_cmp(&b.0).unwrap());
        let all_hits = per_edge.clone();
        per_edge.dedup_by(|a, b| (a.0 - b.0).abs() < 1e-8);
        let same = got.len() == per_edge.len() && got.iter().zip(per_edge.iter()).all(|(g, e)| (g.0 - e.0).abs() <= 1e-12 * (1.0 + e.0.abs()));
        c.check("Curve2::ray_intersections", "equals per-edge list", class, same, || {
            format!("accelerated search: {} crossings {:?}; per-edge scan: {} crossings {:?} ({kind}, {ne} edges, dir {:?})", got.len(), got.iter().take(6).collect::<Vec<_>>(), per_edge.len(), per_edge.iter().take(6).collect::<Vec<_>>(), ray.dir)
        });
        if !same && c.verbose {
            for (t, e) in &per_edge {
                if !got.iter().any(|g| (g.0 - t).abs() <= 1e-9) {
                    let er = Ray2::new(v[*e], v[e + 1] - v[*e]);
                    let prm = engeom::geom2::intersect_rays(&ray, &er);
                    println!("  missed crossing t={t:e} on edge {e}: (t_ray, t_edge) = {prm:?}; edge {:?} -> {:?}", v[*e], v[e + 1]);
                }
            }
        }
        // the named edge yields that parameter
        let ok = got.iter().all(|(t, e)| *e < ne && ray_intersect_with_edge(&line, &ray, *e).map(|x| (x - t).abs() <= 1e-12 * (1.0 + t.abs())).unwrap_or(false));
        c.check("Curve2::ray_intersections", "named edge yields the parameter", class, ok, || format!("{:?}", got.iter().take(6).collect::<Vec<_>>()));

        // (4) ascending, no duplicates within 1e-8
        let asc = got.windows(2).all(|w| w[1].0 > w[0].0 && (w[1].0 - w[0].0).abs() >= 1e-8);
        c.check("Curve2::ray_intersections", "ascending without duplicates", class, asc, || format!("{:?}", got.iter().map(|x| x.0).collect::<Vec<_>>()));

        // (2) independent soundness
        let dn = ray.dir.norm();
        for (t, e) in &got {
            if *e >= ne {
                continue;
            }
            let ed = v[e + 1] - v[*e];
            let sin = (cross2(&ray.dir, &ed) / (dn * ed.norm())).abs();
            if sin < 1e-6 {
                c.skip("Curve2::ray_intersections :: independent soundness");
                continue;
            }
            let p = ray.origin + ray.dir * *t;
            let reach = size + (ray.origin - v[*e]).norm();
            c.close("Curve2::ray_intersections", "independent soundness", class, dist_seg2(&v[*e], &v[e + 1], &p), 0.0, 1e4 * U * reach / sin);
        }

        // (3) independent completeness
        let nrm = Vector2::new(-ray.dir.y, ray.dir.x) / dn;
        let margin = 1e-9 * (size + (ray.origin - v[0]).norm());
        for i in 0..ne {
            let s0 = nrm.dot(&(v[i] - ray.origin));
            let s1 = nrm.dot(&(v[i + 1] - ray.origin));
            if s0 * s1 >= 0.0 {
                continue;
            }
            let ed = v[i + 1] - v[i];
            let det = cross2(&ray.dir, &ed).abs();
            if s0.abs().min(s1.abs()) <= margin || det < 1e-10 {
                c.skip("Curve2::ray_intersections :: independent completeness");
                continue;
            }
            // crossing point by interpolation of the signed distances, then its ray parameter
            let f = s0 / (s0 - s1);
            let x = v[i] + ed * f;
            let tstar = (x - ray.origin).dot(&ray.dir) / (dn * dn);
            let sin = det / (dn * ed.norm());
            let te = 1e-8 + 1e4 * U * (size + (ray.origin - v[i]).norm()) / (sin * dn);
            let hit = got.iter().any(|(t, _)| (t - tstar).abs() <= te);
            c.check("Curve2::ray_intersections", "independent completeness", class, hit, || {
                format!("edge {i} crosses the line at t={tstar:e} but the nearest reported crossing is {:?} ({kind}, dir {:?}, {ne} edges)", got.iter().map(|x| x.0).min_by(|a, b| (a - tstar).abs().partial_cmp(&(b - tstar).abs()).unwrap()), ray.dir)
            });
        }

        // (3b) a vertex that is exactly the ray origin is a crossing at t = 0 up to the documented
        // 1e-8 de-duplication of parameters (the per-edge
        // parameters are exactly 0 / 1 there), unless the adjacent edges are parallel to the ray
        if kind == "origin-on-vertex" {
            if let Some(k) = v.iter().position(|p| *p == ray.origin) {
                let mut best_det = 0.0f64;
                if k > 0 {
                    best_det = best_det.max(cross2(&ray.dir, &(v[k] - v[k - 1])).abs());
                }
                if k < ne {
                    best_det = best_det.max(cross2(&ray.dir, &(v[k + 1] - v[k])).abs());
                }
                if best_det >= 1e-10 {
                    let vclass = if k == 0 { "first-vertex" } else if k == ne { "last-vertex" } else { "interior-vertex" };
                    c.check("Curve2::ray_intersections", "vertex at the ray origin is a crossing at t=0", vclass, got.iter().any(|(t, _)| t.abs() < 1e-8 + 1e-12), || {
                        format!("origin = vertex {k} of {ne}+1, reported parameters {:?}", got.iter().map(|x| x.0).collect::<Vec<_>>())
                    });
                } else {
                    c.skip("Curve2::ray_intersections :: vertex at the ray origin is a crossing at t=0");
                }
            }
        }

        // (5) spanning ray
        let sr = guard(|| curve.try_create_spanning_ray(&ray).map(|s| (s.origin(), s.dir())));
        c.eval();
        match sr {
            Err(p) => {
                c.check("Curve2::try_create_spanning_ray", "no-panic", class, false, || format!("{} {}", p.sig(), p.msg));
            }
            Ok(s) => {
                c.check("Curve2::try_create_spanning_ray", "Some iff exactly two crossings", class, s.is_some() == (got.len() == 2), || {
                    format!("{} crossings but spanning ray is {}", got.len(), if s.is_some() { "Some" } else { "None" })
                });
                if let (Some((o, d)), 2) = (s, got.len()) {
                    let p0 = ray.origin + ray.dir * got[0].0;
                    let p1 = ray.origin + ray.dir * got[1].0;
                    let reach = size + (ray.origin - v[0]).norm() + dn * (got[0].0.abs() + got[1].0.abs());
                    let e2 = 1e3 * U * reach;
                    c.close("Curve2::try_create_spanning_ray", "starts at the first crossing", class, (o - p0).norm(), 0.0, e2);
                    c.close("Curve2::try_create_spanning_ray", "ends at the second crossing", class, ((o + d) - p1).norm(), 0.0, e2);
                    let len = d.norm();
                    if len > 1e3 * e2 {
                        c.check("Curve2::try_create_spanning_ray", "keeps the direction of the query line", class, d.dot(&ray.dir) > 0.0 && (cross2(&d, &ray.dir) / (len * dn)).abs() <= 1e-6 + 1e2 * e2 / len, || {
                            format!("dir {d:?} vs query {:?}", ray.dir)
                        });
                    }
                    // both ends on the curve (when the crossings are not grazing)
                    let grazing = [got[0].1, got[1].1].iter().any(|&e| {
                        let ed = v[e + 1] - v[e];
                        (cross2(&ray.dir, &ed) / (dn * ed.norm())).abs() < 1e-6
                    });
                    if !grazing {
                        let worst = m.dist(&o).max(m.dist(&(o + d)));
                        c.close("Curve2::try_create_spanning_ray", "both ends on the curve", class, worst, 0.0, 1e4 * U * reach * 1e6_f64.min(1.0 / min_sin(&ray, &v, got[0].1, got[1].1)));
                    }
                    // no crossing strictly between: every per-edge hit is within 1e-8 of one of the two ends
                    let between = all_hits.iter().any(|(t, _)| *t > got[0].0 + 1e-8 && *t < got[1].0 - 1e-8);
                    c.check("Curve2::try_create_spanning_ray", "no crossing strictly between the ends", class, !between, || "a per-edge crossing lies between the ends".into());
                }
            }
        }

        // (6) derived answers
        let r6 = guard(|| (max_intersection(&line, &ray), farthest_point_direction_distance(&line, &ray), polyline_intersections(&line, &ray), spanning_ray(&line, &ray).is_some()));
        c.evals(3);
        match r6 {
            Err(p) => {
                c.check("max_intersection", "no-panic", class, false, || format!("{} {}", p.sig(), p.msg));
            }
            Ok((mx, far, pl, sp2)) => {
                let want = per_edge.last().map(|x| x.0);
                let ok = match (mx, want) {
                    (Some(a), Some(b)) => (a - b).abs() <= 1e-12 * (1.0 + b.abs()),
                    (None, None) => true,
                    _ => false,
                };
                c.check("max_intersection", "equals the largest per-edge parameter", class, ok, || format!("{mx:?} vs {want:?}"));
                let bf = v.iter().map(|p| (p - ray.origin).dot(&ray.dir) / dn).fold(f64::MIN, f64::max);
                c.close("farthest_point_direction_distance", "equals brute-force max projection", class, far, bf, 1e3 * U * (size + (ray.origin - v[0]).norm()));
                c.check("polyline_intersections", "same as Curve2::ray_intersections", class, pl.len() == got.len() && pl.iter().zip(got.iter()).all(|(a, b)| a.0 == b.0), || "differs".into());
                c.check("spanning_ray", "Some iff exactly two crossings", class, sp2 == (got.len() == 2), || format!("{} crossings", got.len()));
            }
        }
        // surface point normal line
        let sp = SurfacePoint2::new_normalize(ray.origin, ray.dir);
        let r7 = guard(|| curve.intersection(&sp));
        c.eval();
        if let Ok(ts) = r7 {
            // the normal line has unit direction: parameters are scaled by |dir|
            let unit_ray = Ray2::new(ray.origin, ray.dir / dn);
            let want = curve.ray_intersections(&unit_ray);
            let ok = ts.len() == want.len() && ts.iter().zip(want.iter()).all(|(a, b)| (a - b.0).abs() <= 1e-12 * (1.0 + a.abs()));
            c.check("Curve2 intersection with SurfacePoint2", "same parameters as the ray through point along normal", class, ok, || format!("{ts:?} vs {:?}", want.iter().map(|x| x.0).collect::<Vec<_>>()));
        }

        if !got.is_empty() && ne >= 8 {
            c.distinct(&(ne, v[0].x.to_bits(), ray.origin.x.to_bits(), ray.dir.y.to_bits()));
        }
    }
}

fn min_sin(ray: &Ray2, v: &[Point2], e0: usize, e1: usize) -> f64 {
    let dn = ray.dir.norm();
    let s = |e: usize| {
        let ed = v[e + 1] - v[e];
        (cross2(&ray.dir, &ed) / (dn * ed.norm())).abs()
    };
    s(e0).min(s(e1)).max(1e-6)
}
