//! One monitor per property.
use crate::Spec;

pub mod c01;
pub mod c02;
pub mod c03;
pub mod c04;
pub mod c05;
pub mod c06;
pub mod c07;
pub mod c08;
pub mod c09;
pub mod c10;
pub mod c11;
pub mod c12;
pub mod c13;
pub mod c14;
pub mod c15;
pub mod c16;
pub mod c17;
pub mod c18;
pub mod c19;
pub mod c20;

pub fn all() -> Vec<Spec> {
    vec![c01::spec(), c02::spec(), c03::spec(), c04::spec(), c05::spec(), c06::spec(), c07::spec(), c08::spec(), c09::spec(), c10::spec(), c11::spec(), c12::spec(), c13::spec(), c14::spec(), c15::spec(), c16::spec(), c17::spec(), c18::spec(), c19::spec(), c20::spec()]
}
