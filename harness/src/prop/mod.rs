//! One monitor per property.
use crate::Spec;

pub mod c01;

pub fn all() -> Vec<Spec> {
    vec![c01::spec()]
}
