//! C20 — Conformal flattening is an isometry on planar disks and never folds them.
//!
//! Oracle: the input itself.  A planar disk in a 3-D pose must come back with every edge length
//! kept and every face positively oriented; any disk and its rigidly moved / relabelled twin must
//! give layouts with the same pairwise distances and the same orientation; non-disks must give an
//! error; a mesh carrying the layout as UV map must send surface points to the barycentric image
//! and back.

use crate::gen::{self, RawMesh};
use crate::oracle::{cross2, tri_normal};
use crate::report::{guard, Ctx};
use crate::{Spec, Stream};
use engeom::geom3::mesh::UvMapping;
use engeom::{Mesh, Point2, Point3, Vector3};
use serde_json::json;
use std::f64::consts::{PI, TAU};

pub fn spec() -> Spec {
    Spec {
        id: "C20",
        rule: "planar triangulated disks: jittered grids with random diagonals, triangle strips, fans with and without a centre vertex (convex and star-shaped outlines), L- and U-shaped grid regions; 1..5000 faces; \
               vertex labels permuted, face order shuffled, index triples rotated, optionally all faces reversed; random scale 1e-2..1e2 (one case in four 1e-7..1e5) and 3-D pose. Curved disks (height fields, spherical caps) for the invariance clauses. \
               Non-disks: closed box / sphere / torus, annulus, two separate disks, non-manifold fin, punctured torus, Moebius band, disk plus a closed component, two disks pinched at a vertex; one planar disk in ten also carries vertices that no face uses. \
               UV maps built from the flattening, queried with random (face, barycentric) surface points on and off the surface. Non-trivial = at least 4 faces; distinct = hash of face count, first vertex bits, pose bits.",
        assumptions: &[
            "edge-length tolerance (2e-6 + 2e-7 x D^2) x max(edge, mean edge), D = diameter of the vertex graph in edges: the code adds 1e-8 to the Laplacian diagonal, which perturbs the layout by up to 4e-8 x D^2 (measured on every family; 0.4% on an 800-face strip)",
            "input faces are consistently wound (the orientation clause is stated for such meshes)",
            "invariance is judged on pairwise distances (1e-9 x layout extent) and the orientation sign, i.e. up to a planar rigid motion",
            "UV lookups are exercised at scales 1e-2..1e2 only (the dependency returns no normal for triangles with a doubled area below 2.2e-16)",
            "UV lookups: the angle test of uv_with_tol is disabled (max_angle = pi) for points on the surface, where the offset direction is rounding noise; normals are judged only for points at least 5% (barycentric) inside a face",
        ],
        streams: vec![
            Stream { name: "planar", quick: 12_000, thorough: 300_000, run: run_planar },
            Stream { name: "invariance", quick: 4000, thorough: 100_000, run: run_invariance },
            Stream { name: "rejection", quick: 4000, thorough: 60_000, run: run_rejection },
            Stream { name: "uv-map", quick: 4000, thorough: 100_000, run: run_uv },
        ],
        required: vec![
            ("boundary_first_flatten :: every edge keeps its length", 1000),
            ("boundary_first_flatten :: every face keeps positive orientation", 1000),
            ("unchanged by a rigid motion", 300),
            ("alike after relabelling", 300),
            ("rejected with an error", 400),
            ("uv_with_tol", 2000),
            ("uv_to_3d", 2000),
        ],
        exhaustive_note: None,
    }
}

// ---------------------------------------------------------------------------------------------
// generators

#[derive(Clone)]
struct Disk {
    name: &'static str,
    v: Vec<Point3>,
    f: Vec<[u32; 3]>,
}

/// remove unused vertices
fn compact(name: &'static str, v: &[Point3], f: &[[u32; 3]]) -> Disk {
    let mut map = vec![u32::MAX; v.len()];
    let mut nv = Vec::new();
    let mut nf = Vec::new();
    for t in f {
        let mut o = [0u32; 3];
        for k in 0..3 {
            let i = t[k] as usize;
            if map[i] == u32::MAX {
                map[i] = nv.len() as u32;
                nv.push(v[i]);
            }
            o[k] = map[i];
        }
        nf.push(o);
    }
    Disk { name, v: nv, f: nf }
}

/// grid of nx x ny cells with a cell mask, jittered interior vertices, random diagonals; z = height(x, y)
fn grid_disk(c: &mut Ctx, name: &'static str, nx: usize, ny: usize, keep: &dyn Fn(usize, usize) -> bool, amp: f64) -> Disk {
    let r = &mut c.rng;
    let jitter = if r.chance(0.2) { 0.0 } else { r.range(0.0, 0.35) };
    let (sx, sy) = (r.log_range(0.5, 2.0), r.log_range(0.5, 2.0));
    let (fx, fy, px, py) = (r.range(1.0, 4.0), r.range(1.0, 4.0), r.range(0.0, TAU), r.range(0.0, TAU));
    let mut v = Vec::new();
    for j in 0..=ny {
        for i in 0..=nx {
            let x = (i as f64 + jitter * r.range(-1.0, 1.0)) / nx.max(ny) as f64;
            let y = (j as f64 + jitter * r.range(-1.0, 1.0)) / nx.max(ny) as f64;
            let z = amp * ((fx * x + px).sin() * (fy * y + py).cos());
            v.push(Point3::new(sx * x, sy * y, z));
        }
    }
    let id = |i: usize, j: usize| (j * (nx + 1) + i) as u32;
    let mut f = Vec::new();
    for j in 0..ny {
        for i in 0..nx {
            if !keep(i, j) {
                continue;
            }
            if r.bool() {
                f.push([id(i, j), id(i + 1, j), id(i + 1, j + 1)]);
                f.push([id(i, j), id(i + 1, j + 1), id(i, j + 1)]);
            } else {
                f.push([id(i, j), id(i + 1, j), id(i, j + 1)]);
                f.push([id(i + 1, j), id(i + 1, j + 1), id(i, j + 1)]);
            }
        }
    }
    compact(name, &v, &f)
}

fn size_pair(c: &mut Ctx, max_faces: usize) -> (usize, usize) {
    let faces = c.rng.log_range(2.0, max_faces as f64);
    let aspect = c.rng.log_range(0.25, 4.0);
    let nx = ((faces / 2.0 * aspect).sqrt().round() as usize).max(1);
    let ny = ((faces / 2.0 / aspect).sqrt().round() as usize).max(1);
    (nx, ny)
}

/// every face counter-clockwise in the xy-plane with no angle below 8 degrees: a proper (unfolded,
/// reasonably shaped) triangulation
fn well_shaped(d: &Disk) -> bool {
    d.f.iter().all(|t| {
        let p: Vec<Point2> = t.iter().map(|i| Point2::new(d.v[*i as usize].x, d.v[*i as usize].y)).collect();
        if !(cross2(&(p[1] - p[0]), &(p[2] - p[0])) > 0.0) {
            return false;
        }
        (0..3).all(|k| {
            let (a, b) = (p[(k + 1) % 3] - p[k], p[(k + 2) % 3] - p[k]);
            a.angle(&b) > 8f64.to_radians()
        })
    })
}

/// a disk in the plane z = 0 or a gently curved one; badly shaped draws are discarded
fn make_disk(c: &mut Ctx, max_faces: usize, curved: bool) -> Disk {
    for _ in 0..50 {
        let d = draw_disk(c, max_faces, curved);
        if well_shaped(&d) {
            return d;
        }
        c.note("generator: discarded a folded or sliver triangulation");
    }
    let d = grid_disk_plain(c);
    assert!(well_shaped(&d));
    d
}

fn grid_disk_plain(c: &mut Ctx) -> Disk {
    let (nx, ny) = (c.rng.int(1, 6), c.rng.int(1, 6));
    let mut v = Vec::new();
    for j in 0..=ny {
        for i in 0..=nx {
            v.push(Point3::new(i as f64, j as f64, 0.0));
        }
    }
    let id = |i: usize, j: usize| (j * (nx + 1) + i) as u32;
    let mut f = Vec::new();
    for j in 0..ny {
        for i in 0..nx {
            f.push([id(i, j), id(i + 1, j), id(i + 1, j + 1)]);
            f.push([id(i, j), id(i + 1, j + 1), id(i, j + 1)]);
        }
    }
    Disk { name: "grid", v, f }
}

fn draw_disk(c: &mut Ctx, max_faces: usize, curved: bool) -> Disk {
    let amp = if curved { c.rng.log_range(0.02, 0.25) } else { 0.0 };
    let kind = c.rng.int(0, if curved { 4 } else { 6 });
    match kind {
        0 | 1 => {
            let (nx, ny) = size_pair(c, max_faces);
            grid_disk(c, if curved { "height-field" } else { "grid" }, nx, ny, &|_, _| true, amp)
        }
        2 => {
            // L shape: a corner block removed
            let (nx, ny) = size_pair(c, max_faces.max(16));
            let (nx, ny) = (nx.max(2), ny.max(2));
            let (cx, cy) = (c.rng.int(1, nx - 1), c.rng.int(1, ny - 1));
            grid_disk(c, if curved { "curved-L" } else { "L-shape" }, nx, ny, &move |i, j| !(i >= cx && j >= cy), amp)
        }
        3 => {
            // U shape: a notch cut into one side
            let (nx, ny) = size_pair(c, max_faces.max(24));
            let (nx, ny) = (nx.max(3), ny.max(2));
            let a = c.rng.int(1, nx - 2);
            let b = c.rng.int(a, nx - 2);
            let d = c.rng.int(1, ny - 1);
            grid_disk(c, if curved { "curved-U" } else { "U-shape" }, nx, ny, &move |i, j| !(i >= a && i <= b && j >= d), amp)
        }
        4 if curved => {
            // spherical cap: centre vertex and rings
            let rings = c.rng.int(1, ((max_faces as f64 / 12.0).sqrt() as usize).max(1));
            let seg = c.rng.int(5, 24.min(max_faces / 2).max(5));
            let rad = 1.0;
            let open = c.rng.range(0.2, 1.0); // polar angle of the rim
            let mut v = vec![Point3::new(0.0, 0.0, rad)];
            for k in 1..=rings {
                let th = open * k as f64 / rings as f64;
                for s in 0..seg {
                    let ph = TAU * (s as f64 + 0.3 * c.rng.range(-1.0, 1.0)) / seg as f64;
                    v.push(Point3::new(rad * th.sin() * ph.cos(), rad * th.sin() * ph.sin(), rad * th.cos()));
                }
            }
            let id = |k: usize, s: usize| (1 + (k - 1) * seg + s % seg) as u32;
            let mut f = Vec::new();
            for s in 0..seg {
                f.push([0, id(1, s), id(1, s + 1)]);
            }
            for k in 1..rings {
                for s in 0..seg {
                    f.push([id(k, s), id(k + 1, s), id(k + 1, s + 1)]);
                    f.push([id(k, s), id(k + 1, s + 1), id(k, s + 1)]);
                }
            }
            compact("spherical-cap", &v, &f)
        }
        4 => {
            // fan without an interior vertex over a convex polygon
            let n = c.rng.int(3, 40.min(max_faces + 2));
            let mut ang: Vec<f64> = (0..n).map(|k| TAU * (k as f64 + c.rng.range(-0.3, 0.3)) / n as f64).collect();
            ang.sort_by(|a, b| a.partial_cmp(b).unwrap());
            let (a, b) = (c.rng.log_range(0.5, 2.0), c.rng.log_range(0.5, 2.0));
            let v: Vec<Point3> = ang.iter().map(|t| Point3::new(a * t.cos(), b * t.sin(), 0.0)).collect();
            let f: Vec<[u32; 3]> = (1..n - 1).map(|k| [0, k as u32, k as u32 + 1]).collect();
            compact("fan-no-interior", &v, &f)
        }
        5 => {
            // star-shaped outline around a centre vertex, one or two rings
            let n = c.rng.int(3, 60.min(max_faces.max(3)));
            let two = c.rng.bool();
            let mut v = vec![Point3::new(c.rng.range(-0.1, 0.1), c.rng.range(-0.1, 0.1), 0.0)];
            let radii: Vec<f64> = (0..n).map(|_| c.rng.range(0.6, 1.4)).collect();
            let angs: Vec<f64> = (0..n).map(|k| TAU * (k as f64 + c.rng.range(-0.25, 0.25)) / n as f64).collect();
            for k in 0..n {
                v.push(Point3::new(0.5 * radii[k] * angs[k].cos(), 0.5 * radii[k] * angs[k].sin(), 0.0));
            }
            let mut f: Vec<[u32; 3]> = (0..n).map(|k| [0, 1 + k as u32, 1 + ((k + 1) % n) as u32]).collect();
            if two {
                for k in 0..n {
                    v.push(Point3::new(radii[k] * angs[k].cos(), radii[k] * angs[k].sin(), 0.0));
                }
                for k in 0..n {
                    let (a, b) = (1 + k as u32, 1 + ((k + 1) % n) as u32);
                    let (a2, b2) = (a + n as u32, b + n as u32);
                    f.push([a, a2, b2]);
                    f.push([a, b2, b]);
                }
            }
            compact("star-fan", &v, &f)
        }
        _ => {
            // triangle strip
            let n = c.rng.int(1, (max_faces / 2).max(1)).min(400);
            grid_disk(c, "strip", n, 1, &|_, _| true, amp)
        }
    }
}

/// permute vertex labels, shuffle the faces, rotate every index triple; returns the new disk and
/// `perm` with new_label = perm[old_label]
fn relabel(c: &mut Ctx, d: &Disk) -> (Disk, Vec<usize>) {
    let perm = c.rng.perm(d.v.len());
    let mut v = vec![Point3::origin(); d.v.len()];
    for (old, p) in d.v.iter().enumerate() {
        v[perm[old]] = *p;
    }
    let mut f: Vec<[u32; 3]> = d
        .f
        .iter()
        .map(|t| {
            let t = [perm[t[0] as usize] as u32, perm[t[1] as usize] as u32, perm[t[2] as usize] as u32];
            let k = c.rng.int(0, 2);
            [t[k], t[(k + 1) % 3], t[(k + 2) % 3]]
        })
        .collect();
    c.rng.shuffle(&mut f);
    (Disk { name: d.name, v, f }, perm)
}

fn posed(c: &mut Ctx, d: &Disk) -> Disk {
    posed_in(c, d, true)
}

fn posed_in(c: &mut Ctx, d: &Disk, extreme_units: bool) -> Disk {
    // mostly ordinary sizes; one case in four at a very small or very large length unit
    let s = if extreme_units && c.rng.chance(0.25) { c.rng.log_range(1e-7, 1e5) } else { c.rng.log_range(1e-2, 1e2) };
    let t = gen::iso3(&mut c.rng, 3.0 * s);
    Disk { name: d.name, v: d.v.iter().map(|p| t * Point3::from(p.coords * s)).collect(), f: d.f.clone() }
}

fn flatten(d: &Disk) -> Result<Result<Vec<Point2>, String>, crate::report::Caught> {
    let v = d.v.clone();
    let f = d.f.clone();
    guard(move || {
        let mesh = Mesh::new(v, f, false);
        let edges = mesh.calc_edges().map_err(|e| format!("calc_edges: {e}"))?;
        edges.boundary_first_flatten().map_err(|e| format!("flatten: {e}"))
    })
}

fn area2(uv: &[Point2], t: &[u32; 3]) -> f64 {
    0.5 * cross2(&(uv[t[1] as usize] - uv[t[0] as usize]), &(uv[t[2] as usize] - uv[t[0] as usize]))
}

fn extent2(uv: &[Point2]) -> f64 {
    let (mut lo, mut hi) = ([f64::INFINITY; 2], [f64::NEG_INFINITY; 2]);
    for p in uv {
        for k in 0..2 {
            lo[k] = lo[k].min(p[k]);
            hi[k] = hi[k].max(p[k]);
        }
    }
    ((hi[0] - lo[0]).powi(2) + (hi[1] - lo[1]).powi(2)).sqrt()
}

fn unique_edges(f: &[[u32; 3]]) -> Vec<(u32, u32)> {
    let mut e: Vec<(u32, u32)> = f.iter().flat_map(|t| [(t[0], t[1]), (t[1], t[2]), (t[2], t[0])]).map(|(a, b)| (a.min(b), a.max(b))).collect();
    e.sort();
    e.dedup();
    e
}

/// approximate diameter (in edges) of the vertex graph: two breadth-first sweeps
fn graph_diameter(nv: usize, f: &[[u32; 3]]) -> usize {
    let mut adj: Vec<Vec<u32>> = vec![Vec::new(); nv];
    for (a, b) in unique_edges(f) {
        adj[a as usize].push(b);
        adj[b as usize].push(a);
    }
    let sweep = |start: usize| -> (usize, usize) {
        let mut dist = vec![usize::MAX; nv];
        let mut q = std::collections::VecDeque::new();
        dist[start] = 0;
        q.push_back(start);
        let mut last = start;
        while let Some(u) = q.pop_front() {
            last = u;
            for w in &adj[u] {
                if dist[*w as usize] == usize::MAX {
                    dist[*w as usize] = dist[u] + 1;
                    q.push_back(*w as usize);
                }
            }
        }
        (last, dist[last])
    };
    let (far, _) = sweep(f[0][0] as usize);
    sweep(far).1.max(1)
}

fn class_of(nf: usize) -> &'static str {
    match nf {
        0..=3 => "1-3-faces",
        4..=63 => "4-63-faces",
        64..=999 => "64-999-faces",
        _ => ">=1000-faces",
    }
}

// ---------------------------------------------------------------------------------------------
// planar disks: isometry and no folds

fn run_planar(c: &mut Ctx) {
    let max_faces = if c.tiny { 30 } else if c.thorough && c.rng.chance(0.05) { 5000 } else { 600 };
    let base = make_disk(c, max_faces, false);
    let reversed = c.rng.chance(0.25);
    let (mut d, _) = relabel(c, &base);
    if c.rng.chance(0.2) {
        d = base.clone(); // tidy numbering as well
    }
    if reversed {
        for t in &mut d.f {
            t.swap(1, 2);
        }
    }
    let mut d = posed(c, &d);
    // one mesh in ten also carries vertices that no face uses (a patch cut from a larger mesh)
    let unused = if c.rng.chance(0.1) { c.rng.int(1, 3) } else { 0 };
    for _ in 0..unused {
        let p = d.v[c.rng.int(0, d.v.len() - 1)] + gen::unit3(&mut c.rng) * c.rng.range(0.1, 2.0);
        let at = c.rng.int(0, d.v.len());
        // insert at a random label and shift the face indices accordingly
        d.v.insert(at, p);
        for t in &mut d.f {
            for k in 0..3 {
                if t[k] as usize >= at {
                    t[k] += 1;
                }
            }
        }
    }
    let d = d;
    let nf = d.f.len();
    let class = class_of(nf);
    c.family(&format!("planar/{}{}{}/{class}", d.name, if reversed { "/reversed" } else { "" }, if unused > 0 { "/unused-vertices" } else { "" }));
    c.set_case(json!({"vertices": gen::j3(&d.v), "faces": gen::jfaces(&d.f)}));
    let api = "boundary_first_flatten";
    let r = flatten(&d);
    c.eval();
    let uv = match r {
        Err(p) => {
            c.check(api, "no-panic", class, false, || format!("{} {}", p.sig(), p.msg));
            return;
        }
        Ok(Err(e)) => {
            c.check(api, "a planar disk is flattened (Ok)", class, false, || e.clone());
            return;
        }
        Ok(Ok(uv)) => {
            c.check(api, "a planar disk is flattened (Ok)", class, true, String::new);
            uv
        }
    };
    if !c.check(api, "one finite position per vertex", class, uv.len() == d.v.len() && uv.iter().all(|p| p.x.is_finite() && p.y.is_finite()), || format!("{} positions for {} vertices", uv.len(), d.v.len())) {
        return;
    }
    let edges = unique_edges(&d.f);
    let mean = edges.iter().map(|(a, b)| (d.v[*a as usize] - d.v[*b as usize]).norm()).sum::<f64>() / edges.len() as f64;
    let diam = graph_diameter(d.v.len(), &d.f);
    let rel = 2e-6 + 2e-7 * (diam * diam) as f64;
    let mut worst = 0.0f64;
    let mut worst_e = (0, 0, 0.0, 0.0);
    for (a, b) in &edges {
        let l3 = (d.v[*a as usize] - d.v[*b as usize]).norm();
        let l2 = (uv[*a as usize] - uv[*b as usize]).norm();
        let e = (l3 - l2).abs() / (rel * l3.max(mean));
        if e > worst {
            worst = e;
            worst_e = (*a, *b, l3, l2);
        }
    }
    c.maxf(&format!("edge-length err/tol, {class}"), worst);
    c.maxf(&format!("edge-length rel err / graph diameter^2, {}", d.name), worst * rel / (diam * diam) as f64);
    c.check(api, "every edge keeps its length", class, worst <= 1.0, || format!("edge {}-{}: 3-D length {:e}, layout length {:e} (tolerance {:e} relative, {nf} faces, graph diameter {diam})", worst_e.0, worst_e.1, worst_e.2, worst_e.3, rel));
    // orientation
    let mut bad = None;
    let mut min_ratio = f64::INFINITY;
    for (i, t) in d.f.iter().enumerate() {
        let a2 = area2(&uv, t);
        let a3 = 0.5 * (d.v[t[1] as usize] - d.v[t[0] as usize]).cross(&(d.v[t[2] as usize] - d.v[t[0] as usize])).norm();
        min_ratio = min_ratio.min(a2 / a3);
        if !(a2 > 0.0) && bad.is_none() {
            bad = Some((i, a2, a3));
        }
    }
    c.maxf("planar: 1 - min(layout area / 3-D area)", 1.0 - min_ratio);
    c.check(api, "every face keeps positive orientation", class, bad.is_none(), || format!("face {:?} (index, layout area, 3-D area)", bad.unwrap()));
    // the shape up to a rigid motion: distances between random vertex pairs
    let ext = extent2(&uv).max(mean);
    let mut worst_p = 0.0f64;
    // (between vertices that a face uses: the position given to an unused vertex means nothing)
    let used: Vec<usize> = {
        let mut u: Vec<usize> = d.f.iter().flatten().map(|i| *i as usize).collect();
        u.sort();
        u.dedup();
        u
    };
    for _ in 0..200.min(used.len() * used.len()) {
        let (a, b) = (*c.rng.pick(&used), *c.rng.pick(&used));
        let e = ((d.v[a] - d.v[b]).norm() - (uv[a] - uv[b]).norm()).abs() / (rel * ext);
        worst_p = worst_p.max(e);
    }
    c.check(api, "distances between arbitrary vertex pairs are kept (same shape)", class, worst_p <= 1.0, || format!("worst pair error {:e} x tolerance", worst_p));
    if nf >= 4 {
        c.distinct(&(nf, d.v[0].x.to_bits(), d.v[0].z.to_bits()));
    }
}

// ---------------------------------------------------------------------------------------------
// invariance under rigid motion and relabelling

fn same_layout(c: &mut Ctx, a: &[Point2], b: &[Point2], f: &[[u32; 3]]) -> (f64, bool) {
    let ext = extent2(a).max(extent2(b)).max(1e-300);
    let n = a.len();
    let mut worst = 0.0f64;
    for k in 0..(400.min(n * n)) {
        let (i, j) = if k < n { (k, (k + 1) % n) } else { (c.rng.int(0, n - 1), c.rng.int(0, n - 1)) };
        worst = worst.max(((a[i] - a[j]).norm() - (b[i] - b[j]).norm()).abs() / ext);
    }
    for (i, j) in unique_edges(f).iter().take(2000) {
        let (i, j) = (*i as usize, *j as usize);
        worst = worst.max(((a[i] - a[j]).norm() - (b[i] - b[j]).norm()).abs() / ext);
    }
    // orientation agreement on the largest face
    let big = f.iter().max_by(|x, y| area2(a, x).abs().partial_cmp(&area2(a, y).abs()).unwrap()).unwrap();
    let same_sign = (area2(a, big) > 0.0) == (area2(b, big) > 0.0);
    (worst, same_sign)
}

fn run_invariance(c: &mut Ctx) {
    let curved = c.rng.chance(0.7);
    let max_faces = if c.tiny { 30 } else if c.thorough && c.rng.chance(0.05) { 3000 } else { 400 };
    let base0 = make_disk(c, max_faces, curved);
    let base = posed(c, &base0);
    let nf = base.f.len();
    let class = if curved { "curved-disk" } else { "planar-disk" };
    c.family(&format!("invariance/{}/{}", base.name, class_of(nf)));
    // twin 1: rigid motion
    let ext3 = base.v.iter().map(|p| p.coords.norm()).fold(0.0, f64::max);
    let t = gen::iso3(&mut c.rng, 2.0 * ext3);
    let moved = Disk { name: base.name, v: base.v.iter().map(|p| t * p).collect(), f: base.f.clone() };
    // twin 2: relabelled
    let (rel, perm) = relabel(c, &base);
    c.set_case(json!({"vertices": gen::j3(&base.v), "faces": gen::jfaces(&base.f), "motion": gen::jiso3(&t), "relabel_perm": perm}));
    let api = "boundary_first_flatten";
    let r0 = flatten(&base);
    let r1 = flatten(&moved);
    let r2 = flatten(&rel);
    c.evals(3);
    let (r0, r1, r2) = match (r0, r1, r2) {
        (Ok(a), Ok(b), Ok(d)) => (a, b, d),
        (a, b, d) => {
            let p = [a.err(), b.err(), d.err()].into_iter().flatten().next().unwrap();
            c.check(api, "no-panic", class, false, || format!("{} {}", p.sig(), p.msg));
            return;
        }
    };
    let tol = 1e-9;
    match (&r0, &r1) {
        (Ok(a), Ok(b)) => {
            let (w, same) = same_layout(c, a, b, &base.f);
            c.maxf("invariance (rigid motion): pair-distance difference / extent", w);
            c.check(api, "unchanged by a rigid motion of the input (pairwise distances)", class, w <= tol, || format!("worst pair-distance difference {w:e} x layout extent"));
            c.check(api, "unchanged by a rigid motion of the input (orientation)", class, same, || "layouts are mirror images".into());
        }
        (Err(_), Err(_)) => c.note("invariance: both twins rejected (consistent, not judged further)"),
        (a, b) => {
            c.check(api, "unchanged by a rigid motion of the input (pairwise distances)", class, false, || format!("one accepted, one rejected: {:?} / {:?}", a.as_ref().err(), b.as_ref().err()));
        }
    }
    // The relabelled twin is not compared with the original: the layout of a curved disk
    // legitimately depends on where the boundary loop starts (the y coordinate is the discrete
    // harmonic conjugate of x, which is not rotation invariant), and the property only promises
    // invariance under rigid motion.  The twin must still be accepted or rejected like the original.
    c.check(api, "accepted or rejected alike after relabelling vertices and reordering faces", class, r0.is_ok() == r2.is_ok(), || format!("original {:?} / relabelled {:?}", r0.as_ref().err(), r2.as_ref().err()));
    if nf >= 4 {
        c.distinct(&(nf, base.v[0].x.to_bits(), t.translation.vector.x.to_bits()));
    }
}

// ---------------------------------------------------------------------------------------------
// rejection of non-disks

fn raw_to_disk(m: &RawMesh) -> Disk {
    Disk { name: "raw", v: m.v.clone(), f: m.f.clone() }
}

fn run_rejection(c: &mut Ctx) {
    let kind = c.rng.int(0, 9);
    let (class, d): (&'static str, Disk) = match kind {
        0 => {
            let m = match c.rng.int(0, 2) {
                0 => gen::mesh_box(c.rng.range(0.5, 2.0), c.rng.range(0.5, 2.0), c.rng.range(0.5, 2.0)),
                1 => gen::mesh_icosphere(c.rng.int(0, 2), c.rng.range(0.5, 2.0)),
                _ => gen::mesh_torus(c.rng.int(3, 10), c.rng.int(3, 10), 2.0, 0.5),
            };
            ("closed", raw_to_disk(&m))
        }
        1 | 2 => {
            // annulus: grid with a hole
            let (nx, ny) = (c.rng.int(3, 12), c.rng.int(3, 12));
            let (a, b) = (c.rng.int(1, nx - 2), c.rng.int(1, ny - 2));
            let (a2, b2) = (c.rng.int(a, nx - 2), c.rng.int(b, ny - 2));
            let amp = if c.rng.bool() { 0.0 } else { 0.1 };
            ("multiple-boundaries/annulus", grid_disk(c, "annulus", nx, ny, &move |i, j| !(i >= a && i <= a2 && j >= b && j <= b2), amp))
        }
        3 => {
            // two separate disks
            let a = make_disk(c, 60, false);
            let b = make_disk(c, 60, false);
            let off = a.v.len() as u32;
            let mut v = a.v.clone();
            v.extend(b.v.iter().map(|p| p + Vector3::new(10.0, 0.0, 0.0)));
            let mut f = a.f.clone();
            f.extend(b.f.iter().map(|t| [t[0] + off, t[1] + off, t[2] + off]));
            ("multiple-boundaries/two-disks", Disk { name: "two-disks", v, f })
        }
        4 => {
            // fin: a third face on an interior edge
            let (nx, ny) = (c.rng.int(2, 8), c.rng.int(2, 8));
            let mut d = grid_disk(c, "fin", nx, ny, &|_, _| true, 0.0);
            // find an interior edge (used by two faces)
            let mut cnt = std::collections::HashMap::new();
            for t in &d.f {
                for (a, b) in [(t[0], t[1]), (t[1], t[2]), (t[2], t[0])] {
                    *cnt.entry((a.min(b), a.max(b))).or_insert(0) += 1;
                }
            }
            let mut inner: Vec<_> = cnt.iter().filter(|(_, n)| **n == 2).map(|(e, _)| *e).collect();
            inner.sort();
            let e = *c.rng.pick(&inner);
            let mid = Point3::from((d.v[e.0 as usize].coords + d.v[e.1 as usize].coords) * 0.5) + Vector3::new(0.0, 0.0, 0.3);
            d.v.push(mid);
            let k = d.v.len() as u32 - 1;
            d.f.push([e.0, e.1, k]);
            ("non-manifold/fin", d)
        }
        5 => {
            // punctured torus: one boundary loop, genus 1
            let m = gen::mesh_torus(c.rng.int(4, 10), c.rng.int(4, 10), 2.0, 0.5);
            let mut d = raw_to_disk(&m);
            let k = c.rng.int(0, d.f.len() - 1);
            d.f.remove(k);
            ("single-boundary-but-not-a-disk/punctured-torus", d)
        }
        6 => {
            // a disk plus a closed component
            let a = make_disk(c, 60, false);
            let m = gen::mesh_icosphere(0, 0.5);
            let off = a.v.len() as u32;
            let mut v = a.v.clone();
            v.extend(m.v.iter().map(|p| p + Vector3::new(10.0, 0.0, 0.0)));
            let mut f = a.f.clone();
            f.extend(m.f.iter().map(|t| [t[0] + off, t[1] + off, t[2] + off]));
            ("single-boundary-but-not-a-disk/disk-plus-closed-component", Disk { name: "disk+sphere", v, f })
        }
        7 => {
            // two disks pinched together at one vertex
            let (n1, n2, n3, n4) = (c.rng.int(1, 5), c.rng.int(1, 5), c.rng.int(1, 5), c.rng.int(1, 5));
            let a = grid_disk(c, "a", n1, n2, &|_, _| true, 0.0);
            let b = grid_disk(c, "b", n3, n4, &|_, _| true, 0.0);
            // a's vertex 0 is its (0,0) corner; mirror b so that its (0,0) corner meets it from the other side
            let off = a.v.len() as u32;
            let mut v = a.v.clone();
            v.extend(b.v.iter().skip(1).map(|p| Point3::new(-p.x, -p.y, p.z)));
            let mut f = a.f.clone();
            let map = |i: u32| if i == 0 { 0 } else { i - 1 + off };
            f.extend(b.f.iter().map(|t| [map(t[0]), map(t[1]), map(t[2])]));
            ("non-manifold/pinched-at-a-vertex", Disk { name: "bowtie", v, f })
        }
        8 => {
            // Moebius band: one boundary loop, manifold edges, Euler characteristic 0; sometimes with
            // spare vertices that no face uses
            let n = c.rng.int(5, 24);
            let mut v = Vec::new();
            for k in 0..n {
                let a = TAU * k as f64 / n as f64;
                let half = 0.5 * a;
                for w in [-0.3, 0.3] {
                    let r = 1.0 + w * half.cos();
                    v.push(Point3::new(r * a.cos(), r * a.sin(), w * half.sin()));
                }
            }
            let mut f = Vec::new();
            for k in 0..n {
                let (a0, a1) = ((2 * k) as u32, (2 * k + 1) as u32);
                // the strip closes with a half twist: the last pair connects to the first swapped
                let (b0, b1) = if k + 1 < n { ((2 * k + 2) as u32, (2 * k + 3) as u32) } else { (1, 0) };
                f.push([a0, b0, b1]);
                f.push([a0, b1, a1]);
            }
            for _ in 0..c.rng.int(0, 2) {
                v.push(Point3::new(c.rng.range(-2.0, 2.0), c.rng.range(-2.0, 2.0), c.rng.range(-2.0, 2.0)));
            }
            ("single-boundary-but-not-a-disk/moebius-band", Disk { name: "moebius", v, f })
        }
        _ => {
            // disk with two holes
            let (nx, ny) = (c.rng.int(7, 12), c.rng.int(3, 8));
            ("multiple-boundaries/two-holes", grid_disk(c, "two-holes", nx, ny, &|i, j| !(j == 1 && (i == 1 || i == 4)), 0.0))
        }
    };
    let (d, _) = if c.rng.bool() { relabel(c, &d) } else { (d.clone(), vec![]) };
    let d = posed(c, &d);
    c.family(&format!("rejection/{class}"));
    c.set_case(json!({"vertices": gen::j3(&d.v), "faces": gen::jfaces(&d.f)}));
    let r = flatten(&d);
    c.eval();
    let api = "calc_edges + boundary_first_flatten";
    match r {
        Err(p) => {
            c.check(api, "no-panic", class, false, || format!("{} {}", p.sig(), p.msg));
        }
        Ok(Err(e)) => {
            c.check(api, "a mesh that is not a single-boundary disk is rejected with an error", class, true, String::new);
            c.note(&format!("rejection message: {}", e.chars().take(60).collect::<String>()));
        }
        Ok(Ok(uv)) => {
            c.check(api, "a mesh that is not a single-boundary disk is rejected with an error", class, false, || format!("returned Ok with {} positions", uv.len()));
        }
    }
    c.distinct(&(d.f.len(), d.v[0].x.to_bits(), kind));
}

// ---------------------------------------------------------------------------------------------
// UV map round trip

fn run_uv(c: &mut Ctx) {
    let curved = c.rng.chance(0.4);
    let base0 = make_disk(c, if c.tiny { 24 } else { 300 }, curved);
    let (base0, _) = if c.rng.bool() { relabel(c, &base0) } else { (base0.clone(), vec![]) };
    // ordinary length units only: the UV lookups need face normals, which the dependency does not
    // compute for triangles whose doubled area is below 2.2e-16 (edges of about 1e-8)
    let d = posed_in(c, &base0, false);
    let nf = d.f.len();
    let class = if curved { "curved-disk" } else { "planar-disk" };
    c.family(&format!("uv-map/{}/{}", d.name, class_of(nf)));
    c.set_case(json!({"vertices": gen::j3(&d.v), "faces": gen::jfaces(&d.f)}));
    let uv = match flatten(&d) {
        Ok(Ok(uv)) => uv,
        _ => {
            c.note("uv-map: flattening failed (judged in the other streams)");
            return;
        }
    };
    // the lookup from UV back to 3-D is only single valued when the layout has no overlaps; a
    // layout of a planar disk has none, for curved disks require positive faces
    if d.f.iter().any(|t| !(area2(&uv, t) > 0.0)) {
        c.note("uv-map: layout has a non-positive face (not used as a map)");
        return;
    }
    let (v2, f2, uv2) = (d.v.clone(), d.f.clone(), uv.clone());
    let built = guard(move || UvMapping::new(uv2, f2.clone()).map(|m| Mesh::new_with_uv(v2, f2, false, Some(m))).map_err(|e| e.to_string()));
    let mesh = match built {
        Ok(Ok(m)) => m,
        Ok(Err(e)) => {
            c.check("UvMapping::new", "accepts the layout of a flattened disk", class, false, || e.clone());
            return;
        }
        Err(p) => {
            c.check("Mesh::new_with_uv", "no-panic", class, false, || format!("{} {}", p.sig(), p.msg));
            return;
        }
    };
    let ext = d.v.iter().fold(0.0f64, |a, p| a.max((p - d.v[0]).norm())).max(1e-300);
    let ext_uv = extent2(&uv);
    let off = d.v.iter().map(|p| p.coords.norm()).fold(0.0, f64::max);
    let tol3 = 1e-9 * ext + 64.0 * f64::EPSILON * off;
    let tol2 = 1e-9 * ext_uv;
    let overlap_free = !curved;
    for _ in 0..12 {
        let fi = c.rng.int(0, nf - 1);
        let t = d.f[fi];
        // barycentric coordinates, sometimes on an edge or a vertex
        let mut b = [c.rng.f() + 0.02, c.rng.f() + 0.02, c.rng.f() + 0.02];
        match c.rng.int(0, 9) {
            0 => b[c.rng.int(0, 2)] = 0.0,
            1 => {
                b = [0.0; 3];
                b[c.rng.int(0, 2)] = 1.0;
            }
            _ => {}
        }
        let s = b[0] + b[1] + b[2];
        let b = [b[0] / s, b[1] / s, b[2] / s];
        let inside = b.iter().all(|x| *x >= 0.05);
        let (pa, pb, pc) = (d.v[t[0] as usize], d.v[t[1] as usize], d.v[t[2] as usize]);
        let p = Point3::from(pa.coords * b[0] + pb.coords * b[1] + pc.coords * b[2]);
        let q = Point2::from(uv[t[0] as usize].coords * b[0] + uv[t[1] as usize].coords * b[1] + uv[t[2] as usize].coords * b[2]);
        let Some(n) = tri_normal(&pa, &pb, &pc) else { continue };
        // ---- 3-D -> UV, point on the surface
        let r = guard(|| mesh.uv_with_tol(&p, ext, PI, None));
        c.eval();
        match r {
            Err(pn) => {
                c.check("Mesh::uv_with_tol", "no-panic", class, false, || format!("{} {}", pn.sig(), pn.msg));
            }
            Ok(None) => {
                c.check("Mesh::uv_with_tol", "a surface point has UV coordinates", class, false, || format!("None for face {fi} barycentric {b:?}"));
            }
            Ok(Some((got, depth))) => {
                c.check("Mesh::uv_with_tol", "a surface point has UV coordinates", class, true, String::new);
                c.close("Mesh::uv_with_tol", "UV is the barycentric image of the surface point", class, (got - q).norm(), 0.0, tol2);
                c.close("Mesh::uv_with_tol", "depth of a surface point is zero", class, depth, 0.0, tol3);
            }
        }
        // ---- 3-D -> UV, point lifted off the face along its normal (well inside the face only)
        if inside {
            let h = c.rng.sign() * c.rng.log_range(1e-4, 1e-2) * ext;
            let lifted = p + n * h;
            // the nearest surface point of a lifted point is its foot only if no other face is nearer:
            // ask the oracle
            let (dmin, _) = crate::oracle::brute_mesh(&d.v, &d.f, &lifted);
            if (dmin - h.abs()).abs() <= 1e-9 * ext {
                let r = guard(|| mesh.uv_with_tol(&lifted, ext, 0.3, None));
                c.eval();
                match r {
                    Ok(Some((got, depth))) => {
                        c.close("Mesh::uv_with_tol", "UV of a point off the surface is that of its foot", class, (got - q).norm(), 0.0, tol2);
                        c.close("Mesh::uv_with_tol", "depth is the signed distance along the face normal", class, depth, h, 1e-9 * ext + tol3);
                    }
                    Ok(None) => {
                        c.check("Mesh::uv_with_tol", "a point straight above a face is mapped", class, false, || format!("None for face {fi}, height {h:e}"));
                    }
                    Err(pn) => {
                        c.check("Mesh::uv_with_tol", "no-panic", class, false, || format!("{} {}", pn.sig(), pn.msg));
                    }
                }
            } else {
                c.skip("Mesh::uv_with_tol :: UV of a point off the surface is that of its foot");
            }
        }
        // ---- the motion passed as an argument: uv_with_tol(T^-1 p', .., Some(T)) is uv_with_tol(p', .., None)
        if inside {
            let h = c.rng.sign() * c.rng.log_range(1e-4, 1e-2) * ext;
            let lifted = p + n * h;
            let (dmin, _) = crate::oracle::brute_mesh(&d.v, &d.f, &lifted);
            if (dmin - h.abs()).abs() <= 1e-9 * ext {
                let tm = gen::iso3(&mut c.rng, 2.0 * ext);
                let arg = tm.inverse() * lifted;
                let r = guard(|| (mesh.uv_with_tol(&arg, ext, 0.3, Some(&tm)), mesh.uv_with_tol(&lifted, ext, 0.3, None)));
                c.evals(2);
                match r {
                    Ok((Some((u1, d1)), Some((u2, d2)))) => {
                        let slack = 1e3 * f64::EPSILON * (off + tm.translation.vector.norm());
                        c.close("Mesh::uv_with_tol", "the motion passed as an argument equals moving the point first (UV)", class, (u1 - u2).norm(), 0.0, tol2 + slack * ext_uv / ext);
                        c.close("Mesh::uv_with_tol", "the motion passed as an argument equals moving the point first (depth)", class, d1, d2, tol3 + slack);
                    }
                    Ok((a, b)) => {
                        c.check("Mesh::uv_with_tol", "the motion passed as an argument equals moving the point first (UV)", class, a.is_none() && b.is_none(), || format!("with Some(T): {:?}; on the moved point: {:?}", a, b));
                    }
                    Err(pn) => {
                        c.check("Mesh::uv_with_tol", "no-panic", class, false, || format!("{} {}", pn.sig(), pn.msg));
                    }
                }
            }
        }
        // ---- UV -> 3-D
        if overlap_free {
            let r = guard(|| mesh.uv_to_3d(&q));
            c.eval();
            match r {
                Err(pn) => {
                    c.check("Mesh::uv_to_3d", "no-panic", class, false, || format!("{} {}", pn.sig(), pn.msg));
                }
                Ok(None) => {
                    c.check("Mesh::uv_to_3d", "a UV point of the layout maps to the surface", class, false, || format!("None for face {fi} barycentric {b:?}"));
                }
                Ok(Some(sp)) => {
                    c.check("Mesh::uv_to_3d", "a UV point of the layout maps to the surface", class, true, String::new);
                    c.close("Mesh::uv_to_3d", "returns the surface point with these barycentric coordinates", class, (sp.point - p).norm(), 0.0, tol3);
                    if inside {
                        let dev = (sp.normal.into_inner() - n).norm();
                        c.close("Mesh::uv_to_3d", "carries the normal of the face", class, dev, 0.0, 1e-7);
                    }
                }
            }
        }
    }
    if nf >= 4 {
        c.distinct(&(nf, d.v[0].x.to_bits(), d.v[0].y.to_bits()));
    }
}
