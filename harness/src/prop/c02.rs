//! C02 — Closest-point and distance queries return the global optimum.
//!
//! Oracle: exhaustive scan over all edges / triangles with the harness's own segment and
//! triangle distance routines.

use crate::gen::{self, RawMesh};
use crate::oracle::{self, closest_on_tri, dist_seg2, dist_seg3, dist_tri, tri_normal, PolyModel2, PolyModel3, U};
use crate::report::{guard, Ctx};
use crate::{Spec, Stream};
use engeom::{Curve2, Curve3, Iso3, Point2, Point3, Vector2, Vector3};
use serde_json::json;
use std::f64::consts::PI;

pub fn spec() -> Spec {
    Spec {
        id: "C02",
        rule: "curves: 9 polyline families (incl. long-thin, spirals, nearly coincident strands), 2..2000 edges (5000 thorough), closed and open, \
               scales 1e-3..1e3; meshes: box, prism, tube, icosphere, torus, strip, height field, 12..5000 faces (50k thorough), random pose; \
               query points: on vertices, on edges/faces, constructed equidistant points, near (1e-6..1e-1 extent), far (100x extent), inside. \
               Non-trivial = entity with >= 8 elements and a query whose nearest element is not the first one; \
               distinct = hash of (entity fingerprint, query bits).",
        assumptions: &[
            "reference = exhaustive scan with harness-side segment / Ericson triangle distance",
            "tolerance 1e-9*extent + 1e3*u*offset; caps and angle thresholds have guard bands (counted as skipped_guard)",
            "normal clause accepts the normal of any face tied at the closest point",
        ],
        streams: vec![
            Stream { name: "curve2", quick: 20_000, thorough: 600_000, run: run_curve2 },
            Stream { name: "curve3", quick: 12_000, thorough: 400_000, run: run_curve3 },
            Stream { name: "mesh", quick: 10_000, thorough: 300_000, run: run_mesh },
        ],
        required: vec![
            ("Curve2::dist_to_point :: global-min", 1000),
            ("Curve2::at_closest_to_point :: lerp", 1000),
            ("Curve3::at_closest_to_point :: lerp", 1000),
            ("Mesh::point_closest_to :: global-min", 1000),
            ("Mesh::project_with_max_dist :: some-iff-within-cap", 1000),
            ("Mesh::project_with_tol :: accept", 300),
            ("Mesh::project_with_tol :: reject", 300),
        ],
        exhaustive_note: None,
    }
}

fn queries2(c: &mut Ctx, m: &PolyModel2, nq: usize) -> Vec<(Point2, &'static str)> {
    let ext = m.extent().max(1e-300);
    let n = m.v.len();
    let mut out = Vec::new();
    for k in 0..nq {
        let r = &mut c.rng;
        let i = r.int(0, n - 2);
        let a = m.v[i];
        let b = m.v[i + 1];
        let e = b - a;
        let nrm = Vector2::new(-e.y, e.x).normalize();
        match k % 8 {
            0 => out.push((m.v[r.int(0, n - 1)], "on-vertex")),
            1 => out.push((a + e * r.f(), "on-edge")),
            2 => {
                // near the curve
                let d = ext * r.log_range(1e-6, 1e-1) * r.sign();
                out.push((a + e * r.f() + nrm * d, "near"));
            }
            3 => {
                let ang = r.range(0.0, 2.0 * PI);
                out.push((a + Vector2::new(ang.cos(), ang.sin()) * (100.0 * ext), "far"));
            }
            4 => {
                // equidistant from the two edges meeting at an interior vertex: on the bisector
                if n >= 3 {
                    let j = r.int(1, n - 2);
                    let d0 = (m.v[j] - m.v[j - 1]).normalize();
                    let d1 = (m.v[j + 1] - m.v[j]).normalize();
                    let bis = d1 - d0;
                    if bis.norm() > 1e-9 {
                        let s = ext * r.log_range(1e-4, 1e-1);
                        out.push((m.v[j] + bis.normalize() * s, "bisector"));
                        continue;
                    }
                }
                out.push((a + e * 0.5, "on-edge"));
            }
            5 => {
                // beyond an end of the curve along the end edge
                let s = ext * r.log_range(1e-3, 1.0);
                if r.bool() {
                    let d = (m.v[n - 1] - m.v[n - 2]).normalize();
                    out.push((m.v[n - 1] + d * s, "beyond-back"));
                } else {
                    let d = (m.v[0] - m.v[1]).normalize();
                    out.push((m.v[0] + d * s, "beyond-front"));
                }
            }
            6 => {
                // mid point between two random vertices (often equidistant from two strands)
                let p = m.v[r.int(0, n - 1)];
                let q = m.v[r.int(0, n - 1)];
                out.push((Point2::from((p.coords + q.coords) * 0.5), "between-vertices"));
            }
            _ => {
                let bb = ext * 0.75;
                let ctr = m.v[n / 2];
                out.push((Point2::new(ctr.x + r.range(-bb, bb), ctr.y + r.range(-bb, bb)), "uniform"));
            }
        }
    }
    out
}

fn run_curve2(c: &mut Ctx) {
    let max_n = if c.tiny { 40 } else if c.thorough && c.rng.chance(0.03) { 5000 } else if c.rng.chance(0.1) { 2000 } else { 300 };
    let case = gen::curve_case2(&mut c.rng, max_n);
    c.family(&format!("curve2/{}/{}", case.fam, case.closure));
    c.set_case(case.json());
    let class = format!("2d/{}", if case.closure == "open" { "open" } else { "closed" });
    let curve = match guard(|| Curve2::from_points(&case.pts, case.tol, case.force_closed)) {
        Ok(Ok(cv)) => cv,
        _ => return,
    };
    let m = PolyModel2::new(curve.points());
    let n = m.v.len();
    let eps = 1e-9 * m.extent() + 1e3 * U * m.offset();
    let lens = curve.lengths().clone();
    let nq = if c.tiny { 6 } else if c.thorough { 120 } else { 60 };
    for (q, kind) in queries2(c, &m, nq) {
        let (bd, be) = oracle::brute_poly2(&m.v, &q);
        let r = guard(|| {
            let d = curve.dist_to_point(&q);
            let s = curve.at_closest_to_point(&q);
            (d, s.point(), s.index(), s.fraction(), s.length_along(), s.direction().into_inner())
        });
        c.evals(2);
        let (d, pt, idx, fr, la, dir) = match r {
            Ok(x) => x,
            Err(p) => {
                c.check("Curve2::at_closest_to_point", "no-panic", &format!("{class}/{kind}"), false, || format!("{} {}", p.sig(), p.msg));
                continue;
            }
        };
        c.note(&format!("query/{kind}"));
        c.close("Curve2::dist_to_point", "global-min", &class, d, bd, eps);
        if !c.check("Curve2::at_closest_to_point", "index-fraction-range", &class, idx + 2 <= n && (-1e-12..=1.0 + 1e-12).contains(&fr), || {
            format!("index {idx} fraction {fr:e} n={n}")
        }) {
            continue;
        }
        c.close("Curve2::at_closest_to_point", "distance-is-min", &class, (q - pt).norm(), bd, eps);
        c.close("Curve2::at_closest_to_point", "on-named-edge", &class, dist_seg2(&m.v[idx], &m.v[idx + 1], &pt), 0.0, eps);
        let lerp = m.v[idx] + (m.v[idx + 1] - m.v[idx]) * fr;
        c.close("Curve2::at_closest_to_point", "lerp", &class, (lerp - pt).norm(), 0.0, eps);
        let la_exp = m.cum[idx] + fr * (m.cum[idx + 1] - m.cum[idx]);
        c.close("Curve2::at_closest_to_point", "length-along", &class, la, la_exp, 1e-9 * m.len() + eps);
        let _ = &lens;
        let ed = (m.v[idx + 1] - m.v[idx]).normalize();
        c.close("Curve2::at_closest_to_point", "edge-direction", &class, (ed - dir).norm(), 0.0, 1e-9);
        if n >= 9 && be > 0 {
            c.distinct(&(n, m.v[0].x.to_bits(), q.x.to_bits(), q.y.to_bits()));
        }
    }
}

fn run_curve3(c: &mut Ctx) {
    let max_n = if c.tiny { 40 } else if c.thorough && c.rng.chance(0.03) { 5000 } else if c.rng.chance(0.1) { 2000 } else { 300 };
    let case = gen::curve_case3(&mut c.rng, max_n);
    c.family(&format!("curve3/{}", case.fam));
    c.set_case(case.json());
    let class = "3d".to_string();
    let curve = match guard(|| Curve3::from_points(&case.pts, case.tol)) {
        Ok(Ok(cv)) => cv,
        _ => return,
    };
    let m = PolyModel3::new(curve.points());
    let n = m.v.len();
    let ext = m.extent().max(1e-300);
    let eps = 1e-9 * ext + 1e3 * U * m.offset();
    let nq = if c.tiny { 6 } else if c.thorough { 100 } else { 50 };
    for k in 0..nq {
        let (q, kind): (Point3, &str) = {
            let r = &mut c.rng;
            let i = r.int(0, n - 2);
            let a = m.v[i];
            let e = m.v[i + 1] - a;
            match k % 6 {
                0 => (m.v[r.int(0, n - 1)], "on-vertex"),
                1 => (a + e * r.f(), "on-edge"),
                2 => {
                    let d = ext * r.log_range(1e-6, 1e-1);
                    (a + e * r.f() + gen::unit3(r) * d, "near")
                }
                3 => (a + gen::unit3(r) * (100.0 * ext), "far"),
                4 => {
                    let s = ext * r.log_range(1e-3, 1.0);
                    if r.bool() {
                        (m.v[n - 1] + (m.v[n - 1] - m.v[n - 2]).normalize() * s, "beyond-back")
                    } else {
                        (m.v[0] + (m.v[0] - m.v[1]).normalize() * s, "beyond-front")
                    }
                }
                _ => {
                    let p = m.v[r.int(0, n - 1)];
                    let q = m.v[r.int(0, n - 1)];
                    (Point3::from((p.coords + q.coords) * 0.5), "between-vertices")
                }
            }
        };
        let (bd, be) = oracle::brute_poly3(&m.v, &q);
        let r = guard(|| {
            let d = curve.dist_to_point(&q);
            let s = curve.at_closest_to_point(&q);
            (d, s.point(), s.index(), s.fraction(), s.length_along(), s.direction().into_inner())
        });
        c.evals(2);
        let (d, pt, idx, fr, la, dir) = match r {
            Ok(x) => x,
            Err(p) => {
                c.check("Curve3::at_closest_to_point", "no-panic", &format!("{class}/{kind}"), false, || format!("{} {}", p.sig(), p.msg));
                continue;
            }
        };
        c.note(&format!("query3/{kind}"));
        c.close("Curve3::dist_to_point", "global-min", &class, d, bd, eps);
        if !c.check("Curve3::at_closest_to_point", "index-fraction-range", &class, idx + 2 <= n && (-1e-12..=1.0 + 1e-12).contains(&fr), || {
            format!("index {idx} fraction {fr:e} n={n}")
        }) {
            continue;
        }
        c.close("Curve3::at_closest_to_point", "distance-is-min", &class, (q - pt).norm(), bd, eps);
        c.close("Curve3::at_closest_to_point", "on-named-edge", &class, dist_seg3(&m.v[idx], &m.v[idx + 1], &pt), 0.0, eps);
        let lerp = m.v[idx] + (m.v[idx + 1] - m.v[idx]) * fr;
        c.close("Curve3::at_closest_to_point", "lerp", &class, (lerp - pt).norm(), 0.0, eps);
        let la_exp = m.cum[idx] + fr * (m.cum[idx + 1] - m.cum[idx]);
        c.close("Curve3::at_closest_to_point", "length-along", &class, la, la_exp, 1e-9 * m.len() + eps);
        let ed = (m.v[idx + 1] - m.v[idx]).normalize();
        c.close("Curve3::at_closest_to_point", "edge-direction", &class, (ed - dir).norm(), 0.0, 1e-9);
        if n >= 9 && be > 0 {
            c.distinct(&(n, m.v[0].x.to_bits(), q.x.to_bits(), q.z.to_bits()));
        }
    }
}

/// two nested shells (used to exercise "nearly coincident" faces)
fn nested_shells(r: &mut crate::rng::Rng) -> RawMesh {
    let a = gen::mesh_icosphere(r.int(0, 2), 0.5);
    let b = a.scaled(1.0 + r.log_range(1e-5, 1e-1));
    let mut v = a.v.clone();
    let off = v.len() as u32;
    v.extend(b.v.iter().cloned());
    let mut f = a.f.clone();
    f.extend(b.f.iter().map(|t| [t[0] + off, t[1] + off, t[2] + off]));
    RawMesh { name: "nested-shells", v, f, closed: true, convex: false }
}

fn run_mesh(c: &mut Ctx) {
    let max_faces = if c.tiny {
        16
    } else if c.thorough && c.rng.chance(0.01) {
        50_000
    } else if c.rng.chance(0.05) {
        5000
    } else {
        600
    };
    let raw = if !c.tiny && c.rng.chance(0.1) {
        let m = nested_shells(&mut c.rng);
        let t = gen::iso3(&mut c.rng, 3.0);
        m.transformed(&t)
    } else {
        gen::random_mesh(&mut c.rng, max_faces, true)
    };
    let solid = raw.closed && raw.convex && c.rng.chance(0.3);
    c.family(&format!("mesh/{}{}", raw.name, if solid { "/solid" } else { "" }));
    if raw.f.len() <= 400 {
        c.set_case(json!({"mesh": raw.json(), "solid": solid}));
    } else {
        c.set_case(json!({"mesh": {"kind": raw.name, "faces": raw.f.len(), "vertices": raw.v.len()}, "solid": solid}));
    }
    let class = format!("mesh/{}", if solid { "solid" } else { "shell" });
    let mesh = match guard(|| raw.to_mesh(solid)) {
        Ok(m) => m,
        Err(p) => {
            c.check("Mesh::new", "no-panic", &class, false, || format!("{} {}", p.sig(), p.msg));
            return;
        }
    };
    let v = &raw.v;
    let f = &raw.f;
    let ext = raw.extent().max(1e-300);
    let eps = 1e-9 * ext + 1e3 * U * raw.offset_norm();
    let nf = f.len();
    let budget = if c.tiny { 2_000 } else if c.thorough { 4_000_000 } else { 400_000 };
    let nq = if c.tiny { 3 } else { (budget / nf.max(1)).clamp(8, 80) };
    let centroid = v.iter().fold(Vector3::zeros(), |a, p| a + p.coords) / v.len() as f64;

    for k in 0..nq {
        let (q, kind): (Point3, &str) = {
            let r = &mut c.rng;
            let t = f[r.int(0, nf - 1)];
            let (a, b, cc) = (v[t[0] as usize], v[t[1] as usize], v[t[2] as usize]);
            let nrm = tri_normal(&a, &b, &cc).unwrap_or(Vector3::z());
            let (mut u1, mut u2) = (r.f(), r.f());
            if u1 + u2 > 1.0 {
                u1 = 1.0 - u1;
                u2 = 1.0 - u2;
            }
            let onface = a + (b - a) * u1 + (cc - a) * u2;
            match k % 8 {
                0 => (a, "on-vertex"),
                1 => (a + (b - a) * r.f(), "on-edge"),
                2 => (onface, "on-face"),
                3 => (onface + nrm * (ext * r.log_range(1e-6, 1e-1)), "near-outside"),
                4 => {
                    if solid {
                        (onface + nrm * (ext * r.log_range(1e-3, 1.0)), "outside")
                    } else {
                        (onface - nrm * (ext * r.log_range(1e-6, 1e-1)), "near-inside")
                    }
                }
                5 => (Point3::from(centroid) + gen::unit3(r) * (100.0 * ext), "far"),
                6 => {
                    // off an edge, along the mean of the face normal and the in-plane outward direction:
                    // typically equidistant from the two faces sharing the edge, or beyond an open border
                    let mid = a + (b - a) * r.f();
                    let out = (b - a).cross(&nrm).normalize();
                    let w = r.range(-1.0, 1.0);
                    let dir = (nrm * (1.0 - w.abs()) + out * w).normalize();
                    (mid + dir * (ext * r.log_range(1e-4, 0.3)), "off-edge")
                }
                _ => {
                    if solid {
                        (onface + nrm * (ext * r.log_range(1e-2, 2.0)), "outside")
                    } else {
                        (Point3::from(centroid) + gen::unit3(r) * (ext * r.range(0.0, 0.8)), "uniform")
                    }
                }
            }
        };
        let (bd, bface) = oracle::brute_mesh(v, f, &q);
        c.note(&format!("meshq/{kind}"));

        // ---- unrestricted queries
        let r = guard(|| {
            let p = mesh.point_closest_to(&q);
            let s = mesh.surf_closest_to(&q);
            (p, s.point, s.normal.into_inner())
        });
        c.evals(2);
        match r {
            Err(p) => {
                c.check("Mesh::surf_closest_to", "no-panic", &format!("{class}/{kind}"), false, || format!("{} {}", p.sig(), p.msg));
            }
            Ok((p, sp, sn)) => {
                c.close("Mesh::point_closest_to", "global-min", &class, (q - p).norm(), bd, eps);
                c.close("Mesh::point_closest_to", "on-surface", &class, oracle::brute_mesh(v, f, &p).0, 0.0, eps);
                c.close("Mesh::surf_closest_to", "global-min", &class, (q - sp).norm(), bd, eps);
                // normal = normal of some face that contains the returned point
                let near = oracle::faces_within(v, f, &sp, eps);
                let ok = near.iter().any(|&fi| {
                    let t = f[fi];
                    tri_normal(&v[t[0] as usize], &v[t[1] as usize], &v[t[2] as usize]).map(|n| (n - sn).norm() <= 1e-9).unwrap_or(false)
                });
                c.check("Mesh::surf_closest_to", "normal-of-a-face-at-the-point", &class, ok, || {
                    format!("normal {sn:?} matches none of the {} faces at the closest point", near.len())
                });
            }
        }

        // ---- deviation measurement (point mode): reported value = distance to the reported closest point
        {
            use engeom::common::DistMode;
            use engeom::metrology::Measurement;
            let r = guard(|| {
                let d = mesh.measure_point_deviation(&q, DistMode::ToPoint);
                (d.a, d.b, d.direction.into_inner(), d.value())
            });
            c.eval();
            match r {
                Err(p) => {
                    c.check("Mesh::measure_point_deviation", "no-panic", &class, false, || format!("{} {}", p.sig(), p.msg));
                }
                Ok((a, b, dir, val)) => {
                    c.close("Mesh::measure_point_deviation", "reference-point-is-global-min", &class, (q - a).norm(), bd, eps);
                    c.check("Mesh::measure_point_deviation", "test-point-kept", &class, b == q, || format!("{b:?} vs {q:?}"));
                    c.close("Mesh::measure_point_deviation", "unit-direction", &class, dir.norm(), 1.0, 1e-9);
                    if bd >= 1e-6 {
                        // below 1e-6 (absolute) the library documents that it substitutes the face normal
                        c.close("Mesh::measure_point_deviation", "point-mode |value| = distance", &class, val.abs(), bd, eps);
                    } else {
                        c.check("Mesh::measure_point_deviation", "coincident |value| <= distance", &class, val.abs() <= bd + eps, || {
                            format!("|{val:e}| > {bd:e}")
                        });
                    }
                }
            }
        }

        // ---- capped query
        let cap = match c.rng.int(0, 3) {
            0 => bd * c.rng.range(0.2, 0.95),
            1 => bd * c.rng.range(1.05, 3.0) + ext * 1e-6,
            2 => ext * c.rng.log_range(1e-6, 10.0),
            _ => bd * (1.0 + c.rng.range(-1e-3, 1e-3)),
        };
        let guardband = 1e-9 * ext + 1e-12 * bd + eps;
        let r = guard(|| {
            mesh.project_with_max_dist(&q, cap).map(|(prj, id, loc)| (prj.point, id, loc.barycentric_coordinates()))
        });
        c.eval();
        match r {
            Err(p) => {
                c.check("Mesh::project_with_max_dist", "no-panic", &class, false, || format!("{} {}", p.sig(), p.msg));
            }
            Ok(res) => {
                if (bd - cap).abs() <= guardband {
                    c.skip("Mesh::project_with_max_dist :: some-iff-within-cap");
                } else {
                    c.check("Mesh::project_with_max_dist", "some-iff-within-cap", &class, res.is_some() == (bd <= cap), || {
                        format!("true distance {bd:e} cap {cap:e} returned {}", if res.is_some() { "Some" } else { "None" })
                    });
                }
                if let Some((pp, id, bary)) = res {
                    c.close("Mesh::project_with_max_dist", "global-min", &class, (q - pp).norm(), bd, eps);
                    if c.check("Mesh::project_with_max_dist", "face-id-range", &class, (id as usize) < nf, || format!("id {id} of {nf}")) {
                        let t = f[id as usize];
                        let (a, b, cc) = (v[t[0] as usize], v[t[1] as usize], v[t[2] as usize]);
                        c.close("Mesh::project_with_max_dist", "point-on-named-face", &class, dist_tri(&a, &b, &cc, &pp), 0.0, eps);
                        if let Some(w) = bary {
                            let rec = Point3::from(a.coords * w[0] + b.coords * w[1] + cc.coords * w[2]);
                            c.close("Mesh::project_with_max_dist", "barycentric-reproduces-point", &class, (rec - pp).norm(), 0.0, eps);
                            c.close("Mesh::project_with_max_dist", "barycentric-sums-to-1", &class, w[0] + w[1] + w[2], 1.0, 1e-9);
                        }
                    }
                }
            }
        }

        // ---- angle filtered projection
        if bd > 1e-7 * ext {
            let max_angle = *c.rng.pick(&[0.05, 0.2, 0.5, 1.0, 1.4, PI / 2.0 - 1e-3]);
            let cap2 = if c.rng.chance(0.8) { bd * 2.0 + ext } else { bd * 0.5 };
            let xf: Option<Iso3> = if c.rng.chance(0.4) { Some(gen::iso3(&mut c.rng, 2.0 * ext)) } else { None };
            // the point handed to the library is T^-1 q so that the transformed point is q
            let q_in = match &xf {
                Some(t) => t.inverse() * q,
                None => q,
            };
            let q_eff = match &xf {
                Some(t) => t * q_in,
                None => q,
            };
            let drift = (q_eff - q).norm();
            let r = guard(|| mesh.project_with_tol(&q_in, cap2, max_angle, xf.as_ref()).map(|(prj, id, _)| (prj.point, id)));
            c.eval();
            match r {
                Err(p) => {
                    c.check("Mesh::project_with_tol", "no-panic", &class, false, || format!("{} {}", p.sig(), p.msg));
                }
                Ok(res) => {
                    // faces tied for the minimum, each with its own offset vector and angle
                    let tie = 1e-9 * ext + 4.0 * drift + eps;
                    let mut any_true = false;
                    let mut any_false = false;
                    let mut in_guard = false;
                    for (fi, t) in f.iter().enumerate() {
                        let (a, b, cc) = (v[t[0] as usize], v[t[1] as usize], v[t[2] as usize]);
                        if dist_tri(&a, &b, &cc, &q) > bd + tie {
                            continue;
                        }
                        let _ = fi;
                        let cp = closest_on_tri(&a, &b, &cc, &q);
                        let local = q - cp;
                        if let Some(nn) = tri_normal(&a, &b, &cc) {
                            let th = (nn.dot(&local) / local.norm()).clamp(-1.0, 1.0).acos();
                            let g = 1e-6 + 10.0 * tie / bd;
                            if (th - max_angle).abs() < g || (th - (PI - max_angle)).abs() < g {
                                in_guard = true;
                            }
                            if th < max_angle || th > PI - max_angle {
                                any_true = true;
                            } else {
                                any_false = true;
                            }
                        }
                    }
                    let cap_guard = (bd - cap2).abs() <= guardband + 4.0 * drift;
                    if in_guard || cap_guard {
                        c.skip("Mesh::project_with_tol :: accept => within cap and angle");
                    } else if let Some((pp, _id)) = res {
                        c.check("Mesh::project_with_tol", "accept => within cap and angle", &class, bd <= cap2 && any_true, || {
                            format!("accepted: dist {bd:e} cap {cap2:e} max_angle {max_angle} but no tied face satisfies the angle predicate (transform {})", xf.is_some())
                        });
                        c.close("Mesh::project_with_tol", "accept :: global-min", &class, (q - pp).norm(), bd, eps + 4.0 * drift);
                    } else {
                        c.check("Mesh::project_with_tol", "reject => beyond cap or angle", &class, bd > cap2 || any_false, || {
                            format!("rejected: dist {bd:e} cap {cap2:e} max_angle {max_angle}, every tied face satisfies the predicate (transform {}, kind {kind})", xf.is_some())
                        });
                    }
                    // with a transform argument the answer equals the call on the pre-transformed point
                    if xf.is_some() && !in_guard && !cap_guard {
                        let r2 = guard(|| mesh.project_with_tol(&q_eff, cap2, max_angle, None).map(|(prj, _, _)| prj.point));
                        c.eval();
                        if let Ok(r2) = r2 {
                            let same = match (&res, &r2) {
                                (Some((p1, _)), Some(p2)) => (p1 - p2).norm() <= eps,
                                (None, None) => true,
                                _ => false,
                            };
                            c.check("Mesh::project_with_tol", "transform-argument == pre-transformed point", &class, same, || {
                                format!("with transform: {:?}; on pre-transformed point: {:?}", res.map(|x| x.0), r2)
                            });
                        }
                    }
                }
            }
        }
        if nf >= 8 && bface > 0 {
            c.distinct(&(nf, v[0].x.to_bits(), q.x.to_bits(), q.y.to_bits()));
        }
    }

    // ---- indices_in_tol is the in-order filter of project_with_tol
    let pts: Vec<Point3> = (0..30)
        .map(|_| {
            let t = f[c.rng.int(0, nf - 1)];
            let a = v[t[0] as usize];
            a + gen::unit3(&mut c.rng) * (ext * c.rng.log_range(1e-4, 1.0))
        })
        .collect();
    let (md, ma) = (ext * c.rng.log_range(1e-3, 1.0), c.rng.range(0.1, 1.5));
    let xf: Option<Iso3> = if c.rng.bool() { Some(gen::small_iso3(&mut c.rng, 0.1 * ext, 0.2)) } else { None };
    let r = guard(|| {
        let got = mesh.indices_in_tol(&pts, md, ma, xf.as_ref());
        let want: Vec<usize> = (0..pts.len()).filter(|&i| mesh.project_with_tol(&pts[i], md, ma, xf.as_ref()).is_some()).collect();
        (got, want)
    });
    c.eval();
    if let Ok((got, want)) = r {
        c.check("Mesh::indices_in_tol", "in-order filter", &class, got == want, || format!("{got:?} vs {want:?}"));
    }
}
