//! C15 — Spatial search, sampling and hulls agree with exhaustive computation.
//!
//! Oracle: brute force over all points / faces; a fixed, very wide acceptance region (7 sigma) for
//! the single statistical clause.  Every point set handed to a k-d tree is tagged with whether the
//! dependency's construction rule puts more than 32 points into one leaf (`leaf_overflow`), because
//! the dependency returns wrong indices exactly then (see known_findings.json); the two classes are
//! judged and reported separately and the class without overflow is judged strictly.

use crate::gen;
use crate::oracle::{self, cross2, dist_tri, signed_area, tri_normal, U};
use crate::report::{guard, Ctx};
use crate::{Spec, Stream};
use engeom::common::kd_tree::{KdTree, KdTreeSearch, PartialKdTree};
use engeom::common::poisson_disk::sample_poisson_disk;
use engeom::geom2::hull::{ball_pivot_with_centers_2d, convex_hull_2d, farthest_pair_indices, point_order_direction, BallPivotEnd, BallPivotStart};
use engeom::{AngleDir, Curve2, Point2, Point3};
use parry2d_f64::shape::ConvexPolygon;
use serde_json::json;
use std::collections::{BTreeSet, HashMap};
use std::f64::consts::TAU;
use std::num::NonZero;

pub fn spec() -> Spec {
    Spec {
        id: "C15",
        rule: "point sets in 2D/3D: uniform, clustered, integer grids (many exact ties), up to 200 exact duplicates, 1..20000 points; queries inside, far outside, on points; k = 1..n+3; radii 0..2x extent; random index subsets for the partial tree; \
               visiting orders for Poisson disk; meshes for sampling (uniform, dense, Poisson); star-shaped and convex polygons in both orders for hull / order functions; closed contours with spacing below the ball radius for ball pivoting. \
               Non-trivial = point set with >= 8 points; distinct = hash of the point set and query bits.",
        assumptions: &[
            "ties between equal distances are free: an index is accepted when it attains the reported distance",
            "radius membership is not judged within 1e-12 relative of the radius",
            "uniform sampling frequencies: 7 sigma acceptance region per face group after Bonferroni (false-alarm probability < 1e-9 per run); this is a statistical test",
        ],
        streams: vec![
            Stream { name: "kdtree3", quick: 6000, thorough: 200_000, run: run_kd3 },
            Stream { name: "kdtree2", quick: 6000, thorough: 200_000, run: run_kd2 },
            Stream { name: "poisson", quick: 4000, thorough: 120_000, run: run_poisson },
            Stream { name: "mesh-sampling", quick: 600, thorough: 20_000, run: run_sampling },
            Stream { name: "hull", quick: 20_000, thorough: 600_000, run: run_hull },
            Stream { name: "ball-pivot", quick: 1500, thorough: 50_000, run: run_pivot },
        ],
        required: vec![
            ("KdTree3 :: nearest_one", 5000),
            ("KdTree3 :: nearest(k)", 5000),
            ("KdTree3 :: within(r)", 5000),
            ("KdTree2 :: within(r)", 5000),
            ("PartialKdTree3", 3000),
            ("sample_poisson_disk", 3000),
            ("Mesh::sample_uniform", 500),
            ("Mesh::sample_dense", 500),
            ("Mesh::sample_poisson", 300),
            ("convex_hull_2d", 10_000),
            ("point_order_direction", 5000),
            ("ball_pivot", 500),
        ],
        exhaustive_note: None,
    }
}

/// Replays the splitting rule of the dependency's immutable k-d tree (bucket size 32: median
/// pivot, moved left while equal values straddle it) to find out whether some leaf receives more
/// than 32 points.  That is the condition under which the dependency returns wrong indices (see
/// known_findings.json), so it is the input class of the point set.
fn leaf_overflow<const D: usize>(pts: &[[f64; D]]) -> bool {
    const B: usize = 32;
    let n = pts.len();
    let leaves = n.div_ceil(B);
    if leaves < 2 {
        return false;
    }
    let max_level = leaves.next_power_of_two().ilog2() as i32 - 1;
    fn rec<const D: usize>(pts: &[[f64; D]], idx: &mut Vec<usize>, dim: usize, level: i32, max_level: i32) -> bool {
        if level > max_level {
            return idx.len() > 32;
        }
        let len = idx.len();
        let mut pivot = len >> 1;
        if pivot < len && pivot > 0 {
            idx.sort_by(|a, b| pts[*a][dim].partial_cmp(&pts[*b][dim]).unwrap());
            while pts[idx[pivot]][dim] == pts[idx[pivot - 1]][dim] && pivot > 1 {
                pivot -= 1;
            }
            if pivot == 1 && pts[idx[1]][dim] == pts[idx[0]][dim] {
                // which of the equal points stays alone on the left is not determined: treat as overflow class
                return true;
            }
        }
        let mut upper = idx.split_off(pivot);
        let next = (dim + 1) % D;
        rec(pts, idx, next, level + 1, max_level) | rec(pts, &mut upper, next, level + 1, max_level)
    }
    let mut idx: Vec<usize> = (0..n).collect();
    rec(pts, &mut idx, 0, 0, max_level)
}

fn mult_class_of<const D: usize>(pts: &[[f64; D]]) -> &'static str {
    if leaf_overflow(pts) {
        "tree-leaf>32-points"
    } else {
        "tree-leaves<=32-points"
    }
}

fn axis_mult<const D: usize>(pts: &[[f64; D]]) -> usize {
    let mut worst = 0;
    for k in 0..D {
        let mut m: HashMap<u64, usize> = HashMap::new();
        for p in pts {
            *m.entry(p[k].to_bits()).or_default() += 1;
        }
        worst = worst.max(m.values().cloned().max().unwrap_or(0));
    }
    worst
}

fn gen_points<const D: usize>(c: &mut Ctx) -> (Vec<[f64; D]>, &'static str) {
    let n = match c.rng.int(0, 9) {
        0 => c.rng.int(1, 5),
        _ if c.tiny => c.rng.int(20, 110),
        1 if c.thorough => c.rng.int(2000, 20_000),
        _ => c.rng.log_range(5.0, 1500.0) as usize,
    };
    let scale = c.rng.log_range(1e-2, 1e2);
    let kind = c.rng.int(0, 5);
    let mut v: Vec<[f64; D]> = Vec::with_capacity(n);
    let name = match kind {
        0 | 1 => {
            for _ in 0..n {
                let mut p = [0.0; D];
                for x in p.iter_mut() {
                    *x = scale * c.rng.range(-1.0, 1.0);
                }
                v.push(p);
            }
            "uniform"
        }
        2 => {
            let centres: Vec<[f64; D]> = (0..c.rng.int(1, 6))
                .map(|_| {
                    let mut p = [0.0; D];
                    for x in p.iter_mut() {
                        *x = scale * c.rng.range(-1.0, 1.0);
                    }
                    p
                })
                .collect();
            for _ in 0..n {
                let ctr = *c.rng.pick(&centres);
                let mut p = [0.0; D];
                for (k, x) in p.iter_mut().enumerate() {
                    *x = ctr[k] + 0.02 * scale * c.rng.normal();
                }
                v.push(p);
            }
            "clustered"
        }
        3 => {
            // integer grid: many exact ties and shared coordinates
            let side = ((n as f64).powf(1.0 / D as f64).ceil() as i64).max(1);
            for i in 0..n as i64 {
                let mut p = [0.0; D];
                let mut r = i;
                for x in p.iter_mut() {
                    *x = (r % side) as f64;
                    r /= side;
                }
                v.push(p);
            }
            "grid"
        }
        4 => {
            // exact duplicates of a few points
            let base: Vec<[f64; D]> = (0..c.rng.int(1, 8))
                .map(|_| {
                    let mut p = [0.0; D];
                    for x in p.iter_mut() {
                        *x = scale * c.rng.range(-1.0, 1.0);
                    }
                    p
                })
                .collect();
            for _ in 0..n.min(200) {
                v.push(*c.rng.pick(&base));
            }
            "duplicates"
        }
        _ => {
            // points along one line parallel to an axis (one coordinate shared by all)
            let mut fixed = [0.0; D];
            for x in fixed.iter_mut() {
                *x = scale * c.rng.range(-1.0, 1.0);
            }
            for _ in 0..n.min(80) {
                let mut p = fixed;
                p[0] = scale * c.rng.range(-1.0, 1.0);
                v.push(p);
            }
            "axis-line"
        }
    };
    c.rng.shuffle(&mut v);
    (v, name)
}

fn dist_d<const D: usize>(a: &[f64; D], b: &[f64; D]) -> f64 {
    a.iter().zip(b.iter()).map(|(x, y)| (x - y).powi(2)).sum::<f64>().sqrt()
}

/// all clauses for one tree against brute force; `orig` maps tree results to original indices
#[allow(clippy::too_many_arguments)]
fn judge_tree<const D: usize>(c: &mut Ctx, api: &str, class: &str, pts: &[[f64; D]], subset: Option<&[usize]>, q: &[f64; D], nearest_one: (usize, f64), nearest_k: (usize, Vec<(usize, f64)>), within: (f64, Vec<(usize, f64)>)) {
    let members: Vec<usize> = match subset {
        Some(s) => s.to_vec(),
        None => (0..pts.len()).collect(),
    };
    let mut brute: Vec<(f64, usize)> = members.iter().map(|&i| (dist_d(&pts[i], q), i)).collect();
    brute.sort_by(|a, b| a.0.partial_cmp(&b.0).unwrap());
    let ext = pts.iter().flat_map(|p| p.iter()).fold(0.0f64, |a, b| a.max(b.abs())) + q.iter().fold(0.0f64, |a, b| a.max(b.abs()));
    let tol = 1e-12 * ext + 1e-300;
    let mset: BTreeSet<usize> = members.iter().cloned().collect();
    // nearest_one
    let (i1, d1) = nearest_one;
    c.close(api, "nearest_one: distance is the minimum", class, d1, brute[0].0, tol);
    c.check(api, "nearest_one: returned index attains the distance", class, mset.contains(&i1) && (dist_d(&pts[i1], q) - d1).abs() <= tol, || {
        format!("index {i1} is at {:e}, reported {d1:e} (true minimum {:e})", if i1 < pts.len() { dist_d(&pts[i1], q) } else { f64::NAN }, brute[0].0)
    });
    // nearest k
    let (k, nk) = nearest_k;
    let want_len = k.min(members.len());
    if c.check(api, "nearest(k): returns min(k, n) entries", class, nk.len() == want_len, || format!("{} entries for k={k}, n={}", nk.len(), members.len())) {
        let asc = nk.windows(2).all(|w| w[0].1 <= w[1].1);
        c.check(api, "nearest(k): ascending", class, asc, || "not ascending".into());
        let worst = nk.iter().zip(brute.iter()).map(|(a, b)| (a.1 - b.0).abs()).fold(0.0, f64::max);
        c.close(api, "nearest(k): distances are the k smallest", class, worst, 0.0, tol);
        let attain = nk.iter().all(|(i, d)| mset.contains(i) && (dist_d(&pts[*i], q) - d).abs() <= tol);
        c.check(api, "nearest(k): each index attains its distance", class, attain, || "index/distance mismatch".into());
        let uniq: BTreeSet<usize> = nk.iter().map(|x| x.0).collect();
        c.check(api, "nearest(k): no repeated index", class, uniq.len() == nk.len(), || format!("{} distinct of {}", uniq.len(), nk.len()));
    }
    // within
    let (r, wi) = within;
    let got: BTreeSet<usize> = wi.iter().map(|x| x.0).collect();
    c.check(api, "within(r): no repeated index", class, got.len() == wi.len(), || format!("{} distinct of {}", got.len(), wi.len()));
    let mut wrong = 0;
    let mut first_wrong = None;
    for (d, i) in &brute {
        if (d - r).abs() <= 1e-12 * (r + ext) {
            continue; // guard band
        }
        if (*d <= r) != got.contains(i) {
            wrong += 1;
            first_wrong.get_or_insert((*i, *d));
        }
    }
    let stray = got.iter().filter(|i| !mset.contains(i)).count();
    c.check(api, "within(r): exactly the points within the radius", class, wrong == 0 && stray == 0, || {
        format!("{wrong} points misclassified (e.g. {:?} at radius {r:e}), {stray} indices outside the set; {} returned, n={}", first_wrong, wi.len(), members.len())
    });
    let okd = wi.iter().all(|(i, d)| *i < pts.len() && (dist_d(&pts[*i], q) - d).abs() <= tol);
    c.check(api, "within(r): distances are right", class, okd, || "distance mismatch".into());
}

fn query_for<const D: usize>(c: &mut Ctx, pts: &[[f64; D]]) -> [f64; D] {
    let p = *c.rng.pick(pts);
    let ext = pts.iter().flat_map(|p| p.iter()).fold(0.0f64, |a, b| a.max(b.abs())).max(1e-3);
    let mut q = p;
    match c.rng.int(0, 3) {
        0 => {}
        1 => {
            for x in q.iter_mut() {
                *x += 0.1 * ext * c.rng.normal();
            }
        }
        2 => {
            for x in q.iter_mut() {
                *x = 100.0 * ext * c.rng.range(-1.0, 1.0);
            }
        }
        _ => {
            for x in q.iter_mut() {
                *x = ext * c.rng.range(-1.0, 1.0);
            }
        }
    }
    q
}

fn run_kd3(c: &mut Ctx) {
    let (pts, kind) = gen_points::<3>(c);
    let class = mult_class_of(&pts);
    c.family(&format!("kdtree3/{kind}/{class}"));
    let p3: Vec<Point3> = pts.iter().map(|p| Point3::new(p[0], p[1], p[2])).collect();
    if pts.len() <= 300 {
        c.set_case(json!({"points": gen::j3(&p3)}));
    } else {
        c.set_case(json!({"points": pts.len(), "kind": kind}));
    }
    let Ok(tree) = guard(|| KdTree::<3>::new(&p3)) else {
        c.check("KdTree3::new", "no-panic", class, false, || "panic".into());
        return;
    };
    c.check("KdTree3::len", "number of points", class, tree.len() == pts.len(), || format!("{} vs {}", tree.len(), pts.len()));
    let ext = pts.iter().flat_map(|p| p.iter()).fold(0.0f64, |a, b| a.max(b.abs())).max(1e-3);
    let nq = if pts.len() > 3000 { 3 } else { 8 };
    for _ in 0..nq {
        let q = query_for(c, &pts);
        let qp = Point3::new(q[0], q[1], q[2]);
        let k = c.rng.int(1, pts.len() + 3);
        let r = match c.rng.int(0, 3) {
            0 => 0.0,
            1 => dist_d(c.rng.pick(&pts), &q),
            _ => ext * c.rng.log_range(1e-3, 2.0),
        };
        let res = guard(|| (tree.nearest_one(&qp), tree.nearest(&qp, NonZero::new(k).unwrap()), tree.within(&qp, r)));
        c.evals(3);
        match res {
            Err(p) => {
                c.check("KdTree3", "no-panic", class, false, || format!("{} {}", p.sig(), p.msg));
            }
            Ok((n1, nk, wi)) => judge_tree(c, "KdTree3", class, &pts, None, &q, n1, (k, nk), (r, wi)),
        }
    }
    // partial tree over a random subset
    if pts.len() >= 2 {
        let mut idx = c.rng.perm(pts.len());
        idx.truncate(c.rng.int(1, pts.len()));
        let sub: Vec<[f64; 3]> = idx.iter().map(|i| pts[*i]).collect();
        let pclass = mult_class_of(&sub);
        if let Ok(pt) = guard(|| PartialKdTree::<3>::new(&p3, &idx)) {
            for _ in 0..3 {
                let q = query_for(c, &pts);
                let qp = Point3::new(q[0], q[1], q[2]);
                let k = c.rng.int(1, idx.len() + 2);
                let r = ext * c.rng.log_range(1e-3, 2.0);
                let res = guard(|| (pt.nearest_one(&qp), pt.nearest(&qp, NonZero::new(k).unwrap()), pt.within(&qp, r)));
                c.evals(3);
                if let Ok((n1, nk, wi)) = res {
                    judge_tree(c, "PartialKdTree3", pclass, &pts, Some(&idx), &q, n1, (k, nk), (r, wi));
                } else {
                    c.check("PartialKdTree3", "no-panic", pclass, false, || "panic".into());
                }
            }
        }
    }
    if pts.len() >= 8 {
        c.distinct(&(pts.len(), pts[0][0].to_bits(), kind));
    }
}

fn run_kd2(c: &mut Ctx) {
    let (pts, kind) = gen_points::<2>(c);
    let class = mult_class_of(&pts);
    c.family(&format!("kdtree2/{kind}/{class}"));
    let p2: Vec<Point2> = pts.iter().map(|p| Point2::new(p[0], p[1])).collect();
    if pts.len() <= 300 {
        c.set_case(json!({"points": gen::j2(&p2)}));
    } else {
        c.set_case(json!({"points": pts.len(), "kind": kind}));
    }
    let Ok(tree) = guard(|| KdTree::<2>::new(&p2)) else {
        c.check("KdTree2::new", "no-panic", class, false, || "panic".into());
        return;
    };
    let ext = pts.iter().flat_map(|p| p.iter()).fold(0.0f64, |a, b| a.max(b.abs())).max(1e-3);
    let nq = if pts.len() > 3000 { 3 } else { 8 };
    for _ in 0..nq {
        let q = query_for(c, &pts);
        let qp = Point2::new(q[0], q[1]);
        let k = c.rng.int(1, pts.len() + 3);
        let r = match c.rng.int(0, 3) {
            0 => 0.0,
            1 => dist_d(c.rng.pick(&pts), &q),
            _ => ext * c.rng.log_range(1e-3, 2.0),
        };
        let res = guard(|| (tree.nearest_one(&qp), tree.nearest(&qp, NonZero::new(k).unwrap()), tree.within(&qp, r)));
        c.evals(3);
        match res {
            Err(p) => {
                c.check("KdTree2", "no-panic", class, false, || format!("{} {}", p.sig(), p.msg));
            }
            Ok((n1, nk, wi)) => judge_tree(c, "KdTree2", class, &pts, None, &q, n1, (k, nk), (r, wi)),
        }
    }
    if pts.len() >= 8 {
        c.distinct(&(pts.len(), pts[0][0].to_bits(), kind, 2));
    }
}

fn run_poisson(c: &mut Ctx) {
    let (pts, kind) = gen_points::<3>(c);
    if pts.len() > 3000 {
        return;
    }
    let p3: Vec<Point3> = pts.iter().map(|p| Point3::new(p[0], p[1], p[2])).collect();
    let mut work = c.rng.perm(pts.len());
    work.truncate(c.rng.int(1, pts.len()));
    let sub: Vec<[f64; 3]> = work.iter().map(|i| pts[*i]).collect();
    let class = mult_class_of(&sub);
    let ext = pts.iter().flat_map(|p| p.iter()).fold(0.0f64, |a, b| a.max(b.abs())).max(1e-3);
    let radius = ext * c.rng.log_range(1e-3, 1.0);
    c.family(&format!("poisson/{kind}/{class}"));
    if pts.len() <= 300 {
        c.set_case(json!({"points": gen::j3(&p3), "working_indices": work, "radius": radius}));
    } else {
        c.set_case(json!({"points": pts.len(), "working": work.len(), "radius": radius}));
    }
    let r = guard(|| sample_poisson_disk(&p3, &work, radius));
    c.eval();
    let kept = match r {
        Ok(k) => k,
        Err(p) => {
            c.check("sample_poisson_disk", "no-panic", class, false, || format!("{} {}", p.sig(), p.msg));
            return;
        }
    };
    let api = "sample_poisson_disk";
    let wset: BTreeSet<usize> = work.iter().cloned().collect();
    let kset: BTreeSet<usize> = kept.iter().cloned().collect();
    c.check(api, "result is a subset of the working indices without repeats", class, kset.len() == kept.len() && kset.is_subset(&wset), || format!("{} kept, {} distinct", kept.len(), kset.len()));
    c.check(api, "first visited index is kept", class, kept.first() == work.first(), || format!("{:?} vs {:?}", kept.first(), work.first()));
    // pairwise separation
    let mut close_pair = None;
    'outer: for (a, i) in kept.iter().enumerate() {
        for j in kept.iter().skip(a + 1) {
            let d = dist_d(&pts[*i], &pts[*j]);
            if d < radius * (1.0 - 1e-12) {
                close_pair = Some((*i, *j, d));
                break 'outer;
            }
        }
    }
    c.check(api, "no two kept points within the radius", class, close_pair.is_none(), || format!("kept points {:?} (radius {radius:e})", close_pair));
    // coverage
    let mut uncovered = None;
    for i in &work {
        let dmin = kept.iter().map(|k| dist_d(&pts[*i], &pts[*k])).fold(f64::INFINITY, f64::min);
        if dmin > radius * (1.0 + 1e-12) {
            uncovered = Some((*i, dmin));
            break;
        }
    }
    c.check(api, "every working point is within the radius of a kept point", class, uncovered.is_none(), || format!("working point {:?} (radius {radius:e})", uncovered));
    if pts.len() >= 8 {
        c.distinct(&(pts.len(), work.len(), radius.to_bits()));
    }
}

fn run_sampling(c: &mut Ctx) {
    let axis_aligned = c.rng.chance(0.3);
    let raw = gen::random_mesh(&mut c.rng, 80, !axis_aligned);
    let mesh = raw.to_mesh(false);
    let ext = raw.extent().max(1e-300);
    let eps = 1e-9 * ext + 1e3 * U * raw.offset_norm();
    c.family(&format!("sampling/{}/{}", raw.name, if axis_aligned { "axis-aligned" } else { "posed" }));
    c.set_case(json!({"mesh": raw.json()}));
    let on_surface_with_face_normal = |p: &Point3, n: &engeom::Vector3| -> (f64, bool) {
        let (d, _) = oracle::brute_mesh(&raw.v, &raw.f, p);
        let mut ok = false;
        for t in &raw.f {
            let (a, b, cc) = (raw.v[t[0] as usize], raw.v[t[1] as usize], raw.v[t[2] as usize]);
            if dist_tri(&a, &b, &cc, p) <= eps {
                if let Some(nn) = tri_normal(&a, &b, &cc) {
                    if (nn - n).norm() <= 1e-9 {
                        ok = true;
                    }
                }
            }
        }
        (d, ok)
    };
    // ---- uniform
    let n = if c.rng.chance(0.15) { 40_000 } else { c.rng.int(0, 300) };
    let r = guard(|| mesh.sample_uniform(n));
    c.eval();
    match r {
        Err(p) => {
            c.check("Mesh::sample_uniform", "no-panic", "sampling", false, || format!("{} {}", p.sig(), p.msg));
        }
        Ok(s) => {
            c.check("Mesh::sample_uniform", "returns n samples", "sampling", s.len() == n, || format!("{} for n={n}", s.len()));
            let probe: Vec<usize> = if s.len() > 400 { (0..400).map(|_| c.rng.int(0, s.len() - 1)).collect() } else { (0..s.len()).collect() };
            let (mut worst, mut all_n) = (0.0f64, true);
            for i in probe {
                let (d, ok) = on_surface_with_face_normal(&s[i].point, &s[i].normal.into_inner());
                worst = worst.max(d);
                all_n &= ok;
            }
            c.close("Mesh::sample_uniform", "samples lie on the surface", "sampling", worst, 0.0, eps);
            c.check("Mesh::sample_uniform", "samples carry the normal of the face they lie on", "sampling", all_n, || "normal mismatch".into());
            if n == 40_000 && raw.f.len() <= 80 {
                // faces hit in proportion to area: 7 sigma per face (statistical test)
                let areas: Vec<f64> = raw.f.iter().map(|t| 0.5 * (raw.v[t[1] as usize] - raw.v[t[0] as usize]).cross(&(raw.v[t[2] as usize] - raw.v[t[0] as usize])).norm()).collect();
                let total: f64 = areas.iter().sum();
                let mut counts = vec![0usize; raw.f.len()];
                let mut unassigned = 0;
                for sp in &s {
                    // the face whose plane and interior contain the sample, with the sample's normal
                    let mut best = None;
                    for (fi, t) in raw.f.iter().enumerate() {
                        let (a, b, cc) = (raw.v[t[0] as usize], raw.v[t[1] as usize], raw.v[t[2] as usize]);
                        if dist_tri(&a, &b, &cc, &sp.point) <= eps && tri_normal(&a, &b, &cc).map(|nn| (nn - sp.normal.into_inner()).norm() <= 1e-9).unwrap_or(false) {
                            best = Some(fi);
                            break;
                        }
                    }
                    match best {
                        Some(fi) => counts[fi] += 1,
                        None => unassigned += 1,
                    }
                }
                // samples on shared edges of coplanar faces may be credited to either: merge coplanar groups
                let mut group: Vec<usize> = (0..raw.f.len()).collect();
                for i in 0..raw.f.len() {
                    for j in 0..i {
                        let ti = raw.f[i];
                        let tj = raw.f[j];
                        let ni = tri_normal(&raw.v[ti[0] as usize], &raw.v[ti[1] as usize], &raw.v[ti[2] as usize]);
                        let nj = tri_normal(&raw.v[tj[0] as usize], &raw.v[tj[1] as usize], &raw.v[tj[2] as usize]);
                        if let (Some(a), Some(b)) = (ni, nj) {
                            if (a - b).norm() <= 1e-9 && (a.dot(&(raw.v[ti[0] as usize] - raw.v[tj[0] as usize]))).abs() <= eps {
                                let g = group[j];
                                group[i] = g;
                            }
                        }
                    }
                }
                let mut garea: HashMap<usize, f64> = HashMap::new();
                let mut gcount: HashMap<usize, usize> = HashMap::new();
                for i in 0..raw.f.len() {
                    *garea.entry(group[i]).or_default() += areas[i];
                    *gcount.entry(group[i]).or_default() += counts[i];
                }
                let mut worst_sigma = 0.0f64;
                for (g, a) in &garea {
                    let p = a / total;
                    let mean = n as f64 * p;
                    let sd = (n as f64 * p * (1.0 - p)).sqrt().max(1.0);
                    worst_sigma = worst_sigma.max(((gcount[g] as f64) - mean).abs() / sd);
                }
                c.maxf("uniform sampling: worst deviation in sigma", worst_sigma);
                c.check("Mesh::sample_uniform", "faces are hit in proportion to their area (7 sigma)", "sampling", worst_sigma <= 7.0 && unassigned == 0, || format!("worst group deviates by {worst_sigma:.1} sigma; {unassigned} samples on no face"));
            }
        }
    }
    // ---- dense
    let spacing = ext * c.rng.log_range(0.02, 0.5);
    let r = guard(|| mesh.sample_dense(spacing));
    c.eval();
    let dense = match r {
        Err(p) => {
            c.check("Mesh::sample_dense", "no-panic", "sampling", false, || format!("{} {}", p.sig(), p.msg));
            return;
        }
        Ok(s) => s,
    };
    let probe: Vec<usize> = if dense.len() > 300 { (0..300).map(|_| c.rng.int(0, dense.len() - 1)).collect() } else { (0..dense.len()).collect() };
    let (mut worst, mut all_n) = (0.0f64, true);
    for i in probe {
        let (d, ok) = on_surface_with_face_normal(&dense[i].point, &dense[i].normal.into_inner());
        worst = worst.max(d);
        all_n &= ok;
    }
    c.close("Mesh::sample_dense", "samples lie on the surface", "sampling", worst, 0.0, eps);
    c.check("Mesh::sample_dense", "samples carry the normal of the face they lie on", "sampling", all_n, || "normal mismatch".into());
    c.check("Mesh::sample_dense", "at least one sample per face", "sampling", dense.len() >= raw.f.len(), || format!("{} samples for {} faces", dense.len(), raw.f.len()));
    // ---- poisson (starts from sample_dense(radius / 2); class = multiplicity of that point set)
    let radius = ext * c.rng.log_range(0.05, 0.5);
    let start = guard(|| mesh.sample_dense(radius * 0.5));
    let pclass = match &start {
        Ok(s) => mult_class_of(&s.iter().map(|p| [p.point.x, p.point.y, p.point.z]).collect::<Vec<_>>()),
        Err(_) => "tree-leaves<=32-points",
    };
    let r = guard(|| mesh.sample_poisson(radius));
    c.eval();
    match r {
        Err(p) => {
            c.check("Mesh::sample_poisson", "no-panic", pclass, false, || format!("{} {}", p.sig(), p.msg));
        }
        Ok(s) => {
            let (mut worst, mut all_n) = (0.0f64, true);
            for sp in s.iter().take(200) {
                let (d, ok) = on_surface_with_face_normal(&sp.point, &sp.normal.into_inner());
                worst = worst.max(d);
                all_n &= ok;
            }
            c.close("Mesh::sample_poisson", "samples lie on the surface", pclass, worst, 0.0, eps);
            c.check("Mesh::sample_poisson", "samples carry the normal of the face they lie on", pclass, all_n, || "normal mismatch".into());
            let mut close_pair = None;
            'o: for (a, p) in s.iter().enumerate() {
                for q in s.iter().skip(a + 1) {
                    let d = (p.point - q.point).norm();
                    if d < radius * (1.0 - 1e-12) {
                        close_pair = Some(d);
                        break 'o;
                    }
                }
            }
            c.check("Mesh::sample_poisson", "no two samples within the radius", pclass, close_pair.is_none(), || format!("two samples {:?} apart, radius {radius:e} ({} samples)", close_pair, s.len()));
            c.check("Mesh::sample_poisson", "at least one sample", pclass, !s.is_empty(), || "empty".into());
        }
    }
    c.distinct(&(raw.f.len(), raw.v[0].x.to_bits(), spacing.to_bits()));
}

fn run_hull(c: &mut Ctx) {
    let n = c.rng.int(3, 200);
    let scale = c.rng.log_range(1e-2, 1e2);
    let off = if c.rng.chance(0.3) { [c.rng.range(-1e3, 1e3), c.rng.range(-1e3, 1e3)] } else { [0.0, 0.0] };
    let kind = c.rng.int(0, 3);
    let ccw = c.rng.bool();
    // star-shaped / convex polygons given in order (either direction), or unordered clouds
    let mut pts: Vec<Point2> = match kind {
        0 | 1 => {
            let ph = c.rng.range(0.0, TAU);
            (0..n)
                .map(|i| {
                    let t = ph + TAU * (i as f64 + c.rng.range(-0.3, 0.3)) / n as f64;
                    let rad = if kind == 0 { 1.0 } else { c.rng.range(0.4, 1.0) };
                    Point2::new(off[0] + scale * rad * t.cos(), off[1] + scale * 0.7 * rad * t.sin())
                })
                .collect()
        }
        2 => (0..n).map(|_| Point2::new(off[0] + scale * c.rng.range(-1.0, 1.0), off[1] + scale * c.rng.range(-1.0, 1.0))).collect(),
        _ => (0..n).map(|i| Point2::new(off[0] + (i % 7) as f64 * scale, off[1] + (i / 7) as f64 * scale)).collect(),
    };
    if !ccw && kind <= 1 {
        pts.reverse();
    }
    let kname = ["convex-ordered", "star-ordered", "cloud", "grid"][kind];
    c.family(&format!("hull/{kname}"));
    c.set_case(json!({"points": gen::j2(&pts)}));
    let ext = scale * 2.0 + off[0].abs() + off[1].abs();
    let eps = 1e-9 * scale + 1e3 * U * ext;
    let r = guard(|| convex_hull_2d(&pts));
    c.eval();
    let hull = match r {
        Err(p) => {
            c.check("convex_hull_2d", "no-panic", kname, false, || format!("{} {}", p.sig(), p.msg));
            return;
        }
        Ok(h) => h,
    };
    let uniq: BTreeSet<usize> = hull.iter().cloned().collect();
    c.check("convex_hull_2d", "indices are distinct and in range", kname, uniq.len() == hull.len() && hull.iter().all(|i| *i < n), || format!("{hull:?}"));
    if hull.len() >= 3 && hull.iter().all(|i| *i < n) {
        let hp: Vec<Point2> = hull.iter().map(|i| pts[*i]).collect();
        let area = signed_area(&hp);
        c.check("convex_hull_2d", "runs counter-clockwise", kname, area > 0.0, || format!("signed area {area:e}"));
        let m = hp.len();
        let convex = (0..m).all(|i| cross2(&(hp[(i + 1) % m] - hp[i]), &(hp[(i + 2) % m] - hp[(i + 1) % m])) >= -eps * scale);
        c.check("convex_hull_2d", "polygon is convex", kname, convex, || "reflex corner".into());
        // every point inside or on the hull
        let mut outside = 0;
        for p in &pts {
            for i in 0..m {
                let e = hp[(i + 1) % m] - hp[i];
                if cross2(&e, &(p - hp[i])) < -eps * e.norm().max(scale * 1e-6) {
                    outside += 1;
                    break;
                }
            }
        }
        c.check("convex_hull_2d", "contains every point", kname, outside == 0, || format!("{outside} points outside"));
        // farthest pair of the hull polygon is its true diameter
        if let Some(poly) = ConvexPolygon::from_convex_polyline(hp.clone()) {
            if let Ok((i, j)) = guard(|| farthest_pair_indices(&poly)) {
                c.eval();
                let pp = poly.points();
                let mut best = 0.0f64;
                for a in 0..pp.len() {
                    for b in a + 1..pp.len() {
                        best = best.max((pp[a] - pp[b]).norm());
                    }
                }
                let got = if i < pp.len() && j < pp.len() { (pp[i] - pp[j]).norm() } else { f64::NAN };
                c.close("farthest_pair_indices", "attains the true diameter", kname, got, best, 1e-12 * ext);
            }
        }
    }
    // order direction agrees with the signed area (ordered polygons)
    if kind <= 1 {
        let area = signed_area(&pts);
        if area.abs() > 1e-6 * scale * scale {
            if let Ok(dir) = guard(|| point_order_direction(&pts)) {
                c.eval();
                let got_ccw = matches!(dir, AngleDir::Ccw);
                c.check("point_order_direction", "matches the sign of the signed area", kname, got_ccw == (area > 0.0), || format!("reported {}, signed area {area:e}, {n} points", if got_ccw { "Ccw" } else { "Cw" }));
            }
            if let Ok(Ok(cv)) = guard(|| Curve2::from_points_ccw(&pts, 1e-9 * scale, true)) {
                c.eval();
                let a2 = signed_area(&cv.points()[..cv.count() - 1]);
                c.check("Curve2::from_points_ccw", "resulting curve is counter-clockwise", kname, a2 > 0.0, || format!("signed area {a2:e}"));
            }
        }
    }
    c.distinct(&(n, pts[0].x.to_bits(), kind, ccw));
}

fn run_pivot(c: &mut Ctx) {
    // a noisy closed contour whose point spacing is well below the ball radius
    let n = c.rng.int(40, 200);
    let scale = c.rng.log_range(0.1, 10.0);
    let ph = c.rng.range(0.0, TAU);
    let pts: Vec<Point2> = (0..n)
        .map(|i| {
            let t = ph + TAU * (i as f64 + c.rng.range(-0.2, 0.2)) / n as f64;
            let rad = 1.0 + 0.1 * (3.0 * t).sin() + 0.003 * c.rng.normal();
            Point2::new(scale * rad * t.cos(), scale * rad * t.sin())
        })
        .collect();
    let spacing = TAU * scale / n as f64;
    let radius = spacing * c.rng.range(2.0, 6.0);
    let dirv = if c.rng.bool() { AngleDir::Ccw } else { AngleDir::Cw };
    c.family("ball-pivot");
    c.set_case(json!({"points": gen::j2(&pts), "radius": radius, "direction": format!("{dirv:?}")}));
    let r = guard(|| ball_pivot_with_centers_2d(&pts, BallPivotStart::StartOnConvex, BallPivotEnd::EndOnRepeat, dirv, radius));
    c.eval();
    match r {
        Err(p) => {
            c.check("ball_pivot_with_centers_2d", "no-panic", "contour", false, || format!("{} {}", p.sig(), p.msg));
        }
        Ok(Err(_)) => c.note("ball pivot returned Err (not judged)"),
        Ok(Ok((idx, centers))) => {
            let api = "ball_pivot_with_centers_2d";
            if !c.check(api, "one centre per step", "contour", idx.len() == centers.len() + 1 && idx.iter().all(|i| *i < n), || format!("{} indices, {} centres", idx.len(), centers.len())) {
                return;
            }
            let tol = 1e-9 * (scale + radius);
            // Reference pivot: from every (point, arrival direction) the contact angles of all
            // other points.  The library ignores contacts less than 1e-6 rad ahead of the arrival
            // position (known finding: it then rolls over that point), so runs in which such a
            // contact exists form their own input class.
            let hull = convex_hull_2d(&pts);
            let d0 = {
                let v = pts[hull[1]] - pts[hull[0]];
                engeom::Vector2::new(v.y, -v.x)
            };
            let mut near_simultaneous = false;
            let mut first_wrong: Option<(usize, usize, usize)> = None;
            for k in 0..centers.len() {
                let w = idx[k];
                let d = if k == 0 { d0 } else { centers[k - 1] - pts[w] };
                let mut best: Option<(f64, usize)> = None;
                let mut second = f64::INFINITY;
                for (j, q) in pts.iter().enumerate() {
                    let pq = q - pts[w];
                    let l = pq.norm();
                    if j == w || l >= 2.0 * radius || l == 0.0 || (k >= 1 && j == idx[k - 1]) {
                        continue;
                    }
                    let h = (radius * radius - l * l / 4.0).sqrt();
                    let perp = engeom::Vector2::new(-pq.y, pq.x) / l;
                    for sgn in [-1.0, 1.0] {
                        let v = pq * 0.5 + perp * (h * sgn);
                        let mut a = (d.x * v.y - d.y * v.x).atan2(d.dot(&v));
                        if matches!(dirv, AngleDir::Cw) {
                            a = -a;
                        }
                        if a < 0.0 {
                            a += TAU;
                        }
                        if !(4e-6..=TAU - 4e-6).contains(&a) {
                            near_simultaneous = true;
                            continue;
                        }
                        match best {
                            Some((ba, _)) if a >= ba => second = second.min(a),
                            Some((ba, _)) => {
                                second = ba;
                                best = Some((a, j));
                            }
                            None => best = Some((a, j)),
                        }
                    }
                }
                if let Some((ba, bj)) = best {
                    if bj != idx[k + 1] && second - ba > 1e-6 && first_wrong.is_none() {
                        first_wrong = Some((k, bj, idx[k + 1]));
                    }
                }
            }
            let class = if near_simultaneous { "second-contact-within-4e-6-rad-of-arrival" } else { "contour" };
            c.note(&format!("ball-pivot runs in class {class}"));
            let mut worst_r = 0.0f64;
            let mut worst_in = 0.0f64;
            let mut worst_at = (0usize, 0usize);
            for (k, ctr) in centers.iter().enumerate() {
                worst_r = worst_r.max(((ctr - pts[idx[k]]).norm() - radius).abs()).max(((ctr - pts[idx[k + 1]]).norm() - radius).abs());
                let (jmin, dmin) = pts.iter().enumerate().map(|(j, p)| (j, (p - ctr).norm())).fold((0, f64::INFINITY), |a, b| if b.1 < a.1 { b } else { a });
                if radius - dmin > worst_in {
                    worst_in = radius - dmin;
                    worst_at = (k, jmin);
                }
            }
            c.close(api, "ball centre is one radius from both consecutive hull points", class, worst_r, 0.0, tol);
            c.maxf("ball pivot: deepest intrusion / radius", worst_in / radius);
            c.check(api, "no input point strictly inside the ball", class, worst_in <= tol, || {
                format!("point {} is {worst_in:e} inside the ball of step {} ({} -> {}), radius {radius:e}", worst_at.1, worst_at.0, idx[worst_at.0], idx[worst_at.0 + 1])
            });
            if near_simultaneous {
                // the reference cannot tell which side of the library's dead-band such a contact falls on
                c.skip("ball_pivot_with_centers_2d :: each step pivots to the first contact in the pivot direction");
            } else {
                c.check(api, "each step pivots to the first contact in the pivot direction", class, first_wrong.is_none(), || {
                    let (k, want, got) = first_wrong.unwrap();
                    format!("step {k} at point {}: first contact is point {want}, library went to {got}", idx[k])
                });
            }
            c.distinct(&(n, pts[0].x.to_bits(), radius.to_bits()));
        }
    }
}
