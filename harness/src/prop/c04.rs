//! C04 — Curve portions, splits, trims and reversal conserve length and endpoints.
//!
//! Oracle: conservation law (expected travel length), expected vertex list built from the stored
//! vertices of the source, applied to single requests and to nested histories.

use crate::gen;
use crate::oracle::{PolyModel2, U};
use crate::report::{guard, Ctx};
use crate::rng::{next_down, next_up};
use crate::{Spec, Stream};
use engeom::{Curve2, Point2};
use serde_json::json;

pub fn spec() -> Spec {
    Spec {
        id: "C04",
        rule: "curves as C01 (open / closed, unequal edges); (l0,l1) from the product of {0, L, stored vertex lengths, +-ulp, +-tol/2, +-2tol of a vertex, same edge, last edge, seam, out of range} \
               with itself plus uniform pairs; controls likewise; histories of up to 4 nested portion operations. \
               Non-trivial = a well-posed request whose expected piece contains at least one interior source vertex; distinct = hash of (curve fingerprint, l0 bits, l1 bits).",
        assumptions: &[
            "well-posed: both lengths in [0,L], (closed or l1>l0), travel length E >= 4 tol, |l1-l0| >= tol  => Some is required and judged",
            "ill-posed: out of range, reversed on an open curve, or E < tol => None/Err is required",
            "requests between those two regions (E in [tol,4 tol), closed wrap with |l1-l0| < tol) are not judged",
            "tolerances: end points tol+eps, length 4 tol+eps, eps = 1e-10*(extent+L) + 1e3*u*offset",
        ],
        streams: vec![
            Stream { name: "portions", quick: 12_000, thorough: 400_000, run: run_portions },
            Stream { name: "histories", quick: 6000, thorough: 200_000, run: run_histories },
        ],
        required: vec![
            ("Curve2::between_lengths :: well-posed => Some", 5000),
            ("Curve2::between_lengths :: ill-posed => None", 2000),
            ("Curve2::between_lengths :: length == travel", 5000),
            ("Curve2::split_open_at_length", 300),
            ("Curve2::split_closed_at_lengths", 300),
            ("Curve2::between_lengths_by_control", 1000),
            ("Curve2::reversed", 1000),
            ("Curve2::trim_front", 300),
        ],
        exhaustive_note: None,
    }
}

struct Src<'a> {
    curve: &'a Curve2,
    m: PolyModel2,
    tol: f64,
    closed: bool,
    eps: f64,
    l_tot: f64,
}

impl<'a> Src<'a> {
    /// first vertex to last vertex of a closed curve: zero when it is closed exactly, up to tol when
    /// it is closed only within its tolerance (the library then treats the last vertex as the first
    /// one and never visits it, so every tolerance below carries this seam)
    fn seam(&self) -> f64 {
        if self.closed {
            (self.m.v[0] - self.m.v[self.m.v.len() - 1]).norm()
        } else {
            0.0
        }
    }

    fn new(curve: &'a Curve2) -> Self {
        let m = PolyModel2::new(curve.points());
        let l_tot = curve.length();
        let eps = 1e-10 * (m.extent() + l_tot) + 1e3 * U * m.offset();
        Src { curve, tol: curve.tol(), closed: curve.is_closed(), eps, l_tot, m }
    }
}

#[derive(PartialEq, Debug, Clone, Copy)]
enum Posed {
    Well,
    Ill,
    Grey,
}

/// classification of a (l0,l1) request and its expected travel length
fn classify(s: &Src, l0: f64, l1: f64) -> (Posed, f64) {
    let l = s.l_tot;
    if !(l0 >= 0.0 && l0 <= l && l1 >= 0.0 && l1 <= l) {
        return (Posed::Ill, 0.0);
    }
    if !s.closed && l1 < l0 {
        return (Posed::Ill, 0.0);
    }
    let wrap = l1 < l0;
    let e = if wrap { l - (l0 - l1) } else { l1 - l0 };
    // a curve closed only within its tolerance has a seam (first vertex to last vertex, up to tol
    // long) which the walk crosses without counting it
    let seam = if s.closed { (s.m.v[0] - s.m.v[s.m.v.len() - 1]).norm() } else { 0.0 };
    if e < s.tol * (1.0 - 1e-9) - s.eps {
        if wrap && e + seam >= s.tol * (1.0 - 1e-9) - s.eps {
            return (Posed::Grey, e);
        }
        return (Posed::Ill, e);
    }
    if e >= 4.0 * s.tol + s.eps && (l1 - l0).abs() >= s.tol * (1.0 + 1e-9) + s.eps {
        return (Posed::Well, e);
    }
    (Posed::Grey, e)
}

/// expected vertex list of the travelled portion (end points first/last)
fn expected_list(s: &Src, l0: f64, l1: f64) -> Vec<Point2> {
    let m = &s.m;
    let n = m.v.len();
    let mut out = vec![m.at(l0)];
    if l1 >= l0 {
        for k in 0..n {
            if m.cum[k] > l0 && m.cum[k] < l1 {
                out.push(m.v[k]);
            }
        }
    } else {
        for k in 0..n {
            if m.cum[k] > l0 {
                out.push(m.v[k]);
            }
        }
        for k in 0..n {
            if m.cum[k] < l1 {
                out.push(m.v[k]);
            }
        }
    }
    out.push(m.at(l1));
    out
}

/// distance from p to the polyline through `v`
fn dist_to_poly(v: &[Point2], p: &Point2) -> f64 {
    if v.len() == 1 {
        return (v[0] - p).norm();
    }
    crate::oracle::brute_poly2(v, p).0
}

/// Judge one between_lengths call.  Returns the piece when one was produced.
fn judge_between(c: &mut Ctx, s: &Src, l0: f64, l1: f64, class: &str, api: &str, res: Option<Curve2>) -> Option<Curve2> {
    let (posed, e) = classify(s, l0, l1);
    match posed {
        Posed::Ill => {
            c.check(api, "ill-posed => None", class, res.is_none(), || {
                format!("l0={l0:e} l1={l1:e} L={:e} tol={:e} closed={} returned a piece of length {:e}", s.l_tot, s.tol, s.closed, res.as_ref().map(|p| p.length()).unwrap_or(0.0))
            });
            return None;
        }
        Posed::Grey => {
            c.skip(&format!("{api} :: well-posed => Some"));
            return res;
        }
        Posed::Well => {}
    }
    if !c.check(api, "well-posed => Some", class, res.is_some(), || {
        format!("l0={l0:e} l1={l1:e} L={:e} tol={:e} closed={} travel={e:e} returned None", s.l_tot, s.tol, s.closed)
    }) {
        return None;
    }
    let p = res.unwrap();
    let pv = p.points().to_vec();
    let exp = expected_list(s, l0, l1);
    let (tol, eps) = (s.tol, s.eps);
    c.close(api, "front == P(l0)", class, (pv[0] - exp[0]).norm(), 0.0, eps);
    c.close(api, "back within tol of P(l1)", class, (pv[pv.len() - 1] - exp[exp.len() - 1]).norm(), 0.0, tol + s.seam() + eps);
    c.close(api, "length == travel", class, p.length(), e, 4.0 * tol + eps);
    // subsequence of the expected list: interior vertices exactly, end points within eps
    let mut i = 0usize;
    let mut ok = true;
    let mut bad = 0usize;
    for (j, q) in pv.iter().enumerate() {
        let mut found = false;
        while i < exp.len() {
            let endpoint = i == 0 || i == exp.len() - 1;
            let hit = if endpoint { (exp[i] - q).norm() <= eps } else { exp[i] == *q };
            i += 1;
            if hit {
                found = true;
                break;
            }
        }
        if !found {
            ok = false;
            bad = j;
            break;
        }
    }
    c.check(api, "vertices are a subsequence of the travelled source vertices", class, ok, || {
        format!("piece vertex {bad} of {} is not in the expected list ({} entries) in order; l0={l0:e} l1={l1:e}", pv.len(), exp.len())
    });
    // nothing of the travelled part is lost (beyond de-duplication)
    let mut worst = 0.0f64;
    for q in &exp {
        worst = worst.max(dist_to_poly(&pv, q));
    }
    if c.verbose && worst > tol + eps {
        for (k, q) in exp.iter().enumerate() {
            let dq = dist_to_poly(&pv, q);
            if dq > tol + eps {
                println!("  travelled vertex {k} of {} at ({:e}, {:e}) is {dq:e} from the piece; neighbours in the expected list: {:?} / {:?}; piece has {} vertices, front {:?} back {:?}; l0={l0:e} l1={l1:e} L={:e} tol={tol:e} seam gap {:e}", exp.len(), q.x, q.y, exp.get(k.wrapping_sub(1)).map(|p| (p - q).norm()), exp.get(k + 1).map(|p| (p - q).norm()), pv.len(), pv[0], pv[pv.len() - 1], s.l_tot, (s.m.v[0] - s.m.v[s.m.v.len() - 1]).norm());
            }
        }
    }
    // (on a curve closed only within its tolerance the last vertex stands for the first one and is
    // not visited: it may be a seam further away)
    let seam = if s.closed { (s.m.v[0] - s.m.v[s.m.v.len() - 1]).norm() } else { 0.0 };
    c.close(api, "every travelled vertex within tol of the piece", class, worst, 0.0, tol + seam + eps);
    let mut worst = 0.0f64;
    for q in &pv {
        worst = worst.max(s.m.dist(q));
    }
    c.close(api, "every piece vertex on the source", class, worst, 0.0, eps);
    if (exp[0] - exp[exp.len() - 1]).norm() > 2.0 * tol + eps {
        c.check(api, "piece is open", class, !p.is_closed(), || "closed piece".into());
    }
    c.check(api, "tol kept", class, p.tol() == tol, || format!("{} vs {tol}", p.tol()));
    if exp.len() > 2 {
        c.distinct(&(s.m.v.len(), s.m.v[0].x.to_bits(), l0.to_bits(), l1.to_bits()));
    }
    Some(p)
}

fn special_lengths(c: &mut Ctx, s: &Src) -> Vec<f64> {
    let l = s.l_tot;
    let tol = s.tol;
    let n = s.m.v.len();
    let lens = &s.m.cum;
    let mut out = vec![0.0, l, next_up(0.0), next_down(l), tol / 2.0, 2.0 * tol, l - tol / 2.0, l - 2.0 * tol, -tol, l + tol, next_down(0.0), next_up(l)];
    for _ in 0..4 {
        let k = c.rng.int(0, n - 1);
        let x = lens[k];
        out.extend([x, next_up(x), next_down(x), x + tol / 2.0, x - tol / 2.0, x + 2.0 * tol, x - 2.0 * tol]);
    }
    // two values in one edge, two in the last edge
    let k = c.rng.int(0, n - 2);
    let (a, b) = (lens[k], lens[k + 1]);
    out.push(a + (b - a) * c.rng.f());
    out.push(a + (b - a) * c.rng.f());
    let (a, b) = (lens[n - 2], lens[n - 1]);
    out.push(a + (b - a) * c.rng.f());
    out.push(a + (b - a) * c.rng.f());
    for _ in 0..6 {
        out.push(c.rng.range(0.0, l));
    }
    out
}

fn build(c: &mut Ctx, max_n: usize) -> Option<(gen::CurveCase2, Curve2)> {
    let case = gen::curve_case2(&mut c.rng, max_n);
    match guard(|| Curve2::from_points(&case.pts, case.tol, case.force_closed)) {
        Ok(Ok(cv)) => Some((case, cv)),
        _ => None,
    }
}

fn run_portions(c: &mut Ctx) {
    let Some((case, curve)) = build(c, 120) else { return };
    c.family(&format!("portions/{}/{}", case.fam, case.closure));
    c.set_case(case.json());
    let s = Src::new(&curve);
    let class = if s.closed { "closed" } else { "open" };
    let sp = special_lengths(c, &s);

    // ---- between_lengths over pairs
    let npairs = if c.thorough { 60 } else { 30 };
    for _ in 0..npairs {
        let l0 = *c.rng.pick(&sp);
        let l1 = *c.rng.pick(&sp);
        let r = guard(|| curve.between_lengths(l0, l1));
        c.eval();
        match r {
            Err(e) => {
                c.check("Curve2::between_lengths", "no-panic", class, false, || format!("{} {} l0={l0:e} l1={l1:e}", e.sig(), e.msg));
            }
            Ok(res) => {
                judge_between(c, &s, l0, l1, class, "Curve2::between_lengths", res);
            }
        }
    }

    // ---- trims
    for _ in 0..4 {
        let x = *c.rng.pick(&sp);
        let r = guard(|| (curve.trim_front(x), curve.trim_back(x)));
        c.evals(2);
        match r {
            Err(e) => {
                c.check("Curve2::trim_front", "no-panic", class, false, || format!("{} {}", e.sig(), e.msg));
            }
            Ok((f, b)) => {
                judge_between(c, &s, x, s.l_tot, class, "Curve2::trim_front", f);
                // trim_back computes L - x itself; judge against that very length
                judge_between(c, &s, 0.0, s.l_tot - x, class, "Curve2::trim_back", b);
            }
        }
    }

    // ---- splits
    for _ in 0..4 {
        let l0 = *c.rng.pick(&sp);
        let l1 = *c.rng.pick(&sp);
        let r = guard(|| (curve.split_open_at_length(l0).ok(), curve.split_closed_at_lengths(l0, l1).ok()));
        c.evals(2);
        let (so, sc) = match r {
            Ok(x) => x,
            Err(e) => {
                c.check("Curve2::split_open_at_length", "no-panic", class, false, || format!("{} {}", e.sig(), e.msg));
                continue;
            }
        };
        if s.closed {
            c.check("Curve2::split_open_at_length", "closed curve => Err", class, so.is_none(), || "Ok on a closed curve".into());
            let (pa, _) = classify(&s, l0, l1);
            let (pb, _) = classify(&s, l1, l0);
            if pa == Posed::Ill || pb == Posed::Ill {
                c.check("Curve2::split_closed_at_lengths", "ill-posed => Err", class, sc.is_none(), || format!("Ok for l0={l0:e} l1={l1:e}"));
            } else if pa == Posed::Well && pb == Posed::Well {
                if c.check("Curve2::split_closed_at_lengths", "well-posed => Ok", class, sc.is_some(), || format!("Err for l0={l0:e} l1={l1:e}")) {
                    let (a, b) = sc.unwrap();
                    let (la, lb) = (a.length(), b.length());
                    let a = judge_between(c, &s, l0, l1, class, "Curve2::split_closed_at_lengths", Some(a));
                    let b = judge_between(c, &s, l1, l0, class, "Curve2::split_closed_at_lengths", Some(b));
                    c.close("Curve2::split_closed_at_lengths", "lengths sum to the whole", class, la + lb, s.l_tot, 8.0 * s.tol + s.eps);
                    if let (Some(a), Some(b)) = (a, b) {
                        let d = (a.at_back().point() - b.at_front().point()).norm().max((b.at_back().point() - a.at_front().point()).norm());
                        c.close("Curve2::split_closed_at_lengths", "pieces meet at the split points", class, d, 0.0, s.tol + s.seam() + s.eps);
                    }
                }
            }
        } else {
            c.check("Curve2::split_closed_at_lengths", "open curve => Err", class, sc.is_none(), || "Ok on an open curve".into());
            let (pa, _) = classify(&s, 0.0, l0);
            let (pb, _) = classify(&s, l0, s.l_tot);
            if pa == Posed::Ill || pb == Posed::Ill {
                c.check("Curve2::split_open_at_length", "ill-posed => Err", class, so.is_none(), || format!("Ok for l={l0:e} L={:e}", s.l_tot));
            } else if pa == Posed::Well && pb == Posed::Well {
                if c.check("Curve2::split_open_at_length", "well-posed => Ok", class, so.is_some(), || format!("Err for l={l0:e}")) {
                    let (a, b) = so.unwrap();
                    let (la, lb) = (a.length(), b.length());
                    let a = judge_between(c, &s, 0.0, l0, class, "Curve2::split_open_at_length", Some(a));
                    let b = judge_between(c, &s, l0, s.l_tot, class, "Curve2::split_open_at_length", Some(b));
                    c.close("Curve2::split_open_at_length", "lengths sum to the whole", class, la + lb, s.l_tot, 8.0 * s.tol + s.eps);
                    if let (Some(a), Some(b)) = (a, b) {
                        c.close("Curve2::split_open_at_length", "pieces meet at P(l)", class, (a.at_back().point() - b.at_front().point()).norm(), 0.0, s.tol + s.eps);
                    }
                }
            }
        }
    }

    // ---- control variant
    for _ in 0..10 {
        let a = *c.rng.pick(&sp);
        let b = *c.rng.pick(&sp);
        let ctl = if c.rng.chance(0.7) { c.rng.range(0.0, s.l_tot) } else { *c.rng.pick(&sp) };
        let r = guard(|| curve.between_lengths_by_control(a, b, ctl));
        c.eval();
        let res = match r {
            Ok(x) => x,
            Err(e) => {
                c.check("Curve2::between_lengths_by_control", "no-panic", class, false, || format!("{} {}", e.sig(), e.msg));
                continue;
            }
        };
        let api = "Curve2::between_lengths_by_control";
        let (lo, hi) = (a.min(b), a.max(b));
        if !(ctl >= 0.0 && ctl <= s.l_tot) {
            c.check(api, "control outside the curve => None", class, res.is_none(), || format!("a={a:e} b={b:e} control={ctl:e} L={:e} returned a piece", s.l_tot));
            continue;
        }
        if ctl == lo || ctl == hi {
            c.check(api, "control on a bound => None", class, res.is_none(), || format!("a={a:e} b={b:e} control={ctl:e}"));
            continue;
        }
        let margin = 4.0 * s.tol + s.eps;
        if (ctl - lo).abs() < margin || (ctl - hi).abs() < margin {
            c.skip("Curve2::between_lengths_by_control :: piece contains the control position");
            continue;
        }
        let inside = lo < ctl && ctl < hi;
        // which request contains the control position
        let (q0, q1) = if inside { (lo, hi) } else { (hi, lo) };
        let (posed, _) = classify(&s, q0, q1);
        match posed {
            Posed::Ill => {
                c.check(api, "no piece can contain the control => None", class, res.is_none(), || {
                    format!("a={a:e} b={b:e} control={ctl:e} closed={} returned a piece of length {:e}", s.closed, res.as_ref().map(|p| p.length()).unwrap_or(0.0))
                });
            }
            Posed::Grey => c.skip("Curve2::between_lengths_by_control :: piece contains the control position"),
            Posed::Well => {
                if let Some(p) = judge_between(c, &s, q0, q1, class, api, res) {
                    let pc = s.m.at(ctl);
                    c.close(api, "piece contains the control position", class, dist_to_poly(p.points(), &pc), 0.0, s.tol + s.seam() + s.eps);
                }
            }
        }
    }

    // ---- reversal
    let r = guard(|| curve.reversed());
    c.eval();
    match r {
        Err(e) => {
            c.check("Curve2::reversed", "no-panic", class, false, || format!("{} {}", e.sig(), e.msg));
        }
        Ok(rev) => {
            c.close("Curve2::reversed", "length kept", class, rev.length(), s.l_tot, 1e-12 * s.l_tot + s.eps);
            c.check("Curve2::reversed", "closedness kept", class, rev.is_closed() == s.closed, || format!("{} vs {}", rev.is_closed(), s.closed));
            c.check("Curve2::reversed", "tol kept", class, rev.tol() == s.tol, || "tol".into());
            c.check("Curve2::reversed", "vertex count kept", class, rev.count() == curve.count(), || format!("{} vs {}", rev.count(), curve.count()));
            for _ in 0..8 {
                let l = c.rng.range(0.0, s.l_tot);
                if let Ok(Some(p)) = guard(|| rev.at_length(l).map(|st| st.point())) {
                    c.close("Curve2::reversed", "point at l == P(L-l)", class, (p - s.m.at(s.l_tot - l)).norm(), 0.0, s.eps + 1e-9 * s.l_tot);
                }
                c.eval();
            }
        }
    }
}

fn run_histories(c: &mut Ctx) {
    let Some((case, curve)) = build(c, 80) else { return };
    c.family(&format!("history/{}", case.closure));
    let orig = PolyModel2::new(curve.points());
    let mut ops = Vec::new();
    let mut cur = curve.clone();
    let depth = c.rng.int(2, 4);
    let mut eps_total = 0.0;
    for step in 0..depth {
        let s = Src::new(&cur);
        // each step may move an end point by up to tol (de-duplication) and, when it travels through
        // the seam of a curve that is closed only within tol, replaces the last vertex by the first
        eps_total += s.eps + s.tol;
        let class = format!("step{}/{}", step, if s.closed { "closed" } else { "open" });
        let l = s.l_tot;
        let op = c.rng.int(0, 4);
        let (name, res): (&str, Result<Option<Curve2>, _>) = match op {
            0 | 1 => {
                let mut l0 = c.rng.range(0.0, l);
                let mut l1 = c.rng.range(0.0, l);
                if !s.closed && l1 < l0 {
                    std::mem::swap(&mut l0, &mut l1);
                }
                ops.push(json!({"op": "between_lengths", "l0": l0, "l1": l1}));
                let r = guard(|| cur.between_lengths(l0, l1));
                c.eval();
                ("between", r.map(|x| judge_between(c, &s, l0, l1, &class, "Curve2::between_lengths (history)", x)))
            }
            2 => {
                let x = c.rng.range(0.0, 0.5 * l);
                ops.push(json!({"op": "trim_front", "x": x}));
                let r = guard(|| cur.trim_front(x));
                c.eval();
                ("trim_front", r.map(|y| judge_between(c, &s, x, l, &class, "Curve2::trim_front (history)", y)))
            }
            3 => {
                let x = c.rng.range(0.0, 0.5 * l);
                ops.push(json!({"op": "trim_back", "x": x}));
                let r = guard(|| cur.trim_back(x));
                c.eval();
                ("trim_back", r.map(|y| judge_between(c, &s, 0.0, l - x, &class, "Curve2::trim_back (history)", y)))
            }
            _ => {
                ops.push(json!({"op": "reversed"}));
                let r = guard(|| cur.reversed());
                c.eval();
                ("reversed", r.map(Some))
            }
        };
        c.note(&format!("history-op/{name}"));
        match res {
            Err(e) => {
                c.set_case(json!({"curve": case.json(), "ops": ops}));
                c.check("Curve2 history", "no-panic", &class, false, || format!("{} {}", e.sig(), e.msg));
                return;
            }
            Ok(None) => break,
            Ok(Some(nc)) => cur = nc,
        }
    }
    c.set_case(json!({"curve": case.json(), "ops": ops}));
    // every vertex of the final piece lies on the original curve
    let mut worst = 0.0f64;
    for q in cur.points() {
        worst = worst.max(orig.dist(q));
    }
    c.close("Curve2 history", "final piece lies on the original curve", "any", worst, 0.0, eps_total + 1e-10 * orig.len());
    c.distinct(&(orig.v.len(), orig.v[0].x.to_bits(), ops.len(), cur.count()));
}
