//! C09 — Least-squares fits are optimal.
//!
//! Oracle: normal-equation orthogonality with the condition number computed by the harness (SVD);
//! stationarity of the circle fit; defining constraints of the three-point circle; inlier count
//! of the generating circle for RANSAC.

use crate::gen;
use crate::oracle::U;
use crate::report::{guard, Ctx};
use crate::{Spec, Stream};
use engeom::func1::Func1;
use engeom::{BestFit, Circle2, Line1, Point2, Polynomial, Series1};
use parry3d_f64::na::DMatrix;
use serde_json::json;
use std::f64::consts::{PI, TAU};

pub fn spec() -> Spec {
    Spec {
        id: "C09",
        rule: "polynomial sizes K = 2..6; abscissae asymmetric and offset (interval [a,b] inside [-4,6]), clustered, duplicated up to multiplicity 3, n from K to 200; positive weights 0.1..10 or none; exact polynomial ordinates and arbitrary ordinates. \
               Circles: radius 1e-2..1e2, centre offset <= 1e3, arcs 60..360 degrees, 5-200 points, guesses within +-20% r, noise <= 1% r; triangles with min angle >= 5 degrees and size >= 3e-2 plus exactly collinear triples; RANSAC with >= 50% exact inliers + uniform outliers. \
               Non-trivial = a fit with more samples than coefficients (circle: >= 6 points); distinct = hash of the data bits.",
        assumptions: &[
            "tolerances carry the condition number of the weighted Gram matrix computed by the oracle (SVD); cases with cond > 1e6 are skipped and counted; the bound is 1e6*u*cond (the library inverts the Gram matrix)",
            "circle fit, arbitrary data: |J^T r| <= 1e-4 |J||r| + 1e3 u (r+offset) sqrt(n) (the solver stops on a relative objective reduction of 30 eps, which bounds the gradient ratio by about 1e-6 times the conditioning of the arc); Gaussian mode judged on exact samples only, 8 points or more",
            "three-point circle: tolerance 1e3*u*(offset^2+size^2)/(size*sin(min angle)) + 1e-9*r (the library squares absolute coordinates)",
        ],
        streams: vec![
            Stream { name: "polynomial", quick: 400_000, thorough: 10_000_000, run: run_poly },
            Stream { name: "small-scale-line", quick: 100_000, thorough: 3_000_000, run: run_small_line },
            Stream { name: "circle-fit", quick: 100_000, thorough: 3_000_000, run: run_circle },
            Stream { name: "three-points", quick: 400_000, thorough: 10_000_000, run: run_three },
            Stream { name: "ransac", quick: 6000, thorough: 200_000, run: run_ransac },
        ],
        required: vec![
            ("Polynomial::least_squares :: exact data recovers the coefficients", 5000),
            ("Polynomial::least_squares :: residual orthogonal to every monomial", 5000),
            ("Series1::best_fit_line", 1000),
            ("Circle2::fitting_circle :: exact samples recover the circle", 2000),
            ("Circle2::fitting_circle :: stationary point", 2000),
            ("Circle2::from_3_points :: passes through the three points", 10_000),
            ("Circle2::from_3_points :: collinear => Err", 1000),
            ("Circle2::ransac", 500),
        ],
        exhaustive_note: None,
    }
}

fn abscissae(c: &mut Ctx, k: usize) -> Vec<f64> {
    let r = &mut c.rng;
    let a = r.range(-4.0, 4.0);
    let b = a + r.range(0.5, 6.0 - a.max(-4.0)).min(6.0 - a).max(0.3);
    let n = if r.chance(0.3) { r.int(k, k + 3) } else { r.int(k, 200) };
    let mut xs: Vec<f64> = match r.int(0, 3) {
        0 => (0..n).map(|_| r.range(a, b)).collect(),
        1 => {
            // clustered around a few centres
            let centres: Vec<f64> = (0..r.int(k.max(2), k + 3)).map(|_| r.range(a, b)).collect();
            (0..n).map(|_| *r.pick(&centres) + 0.02 * (b - a) * r.normal()).collect()
        }
        2 => (0..n).map(|i| a + (b - a) * i as f64 / (n.max(2) - 1) as f64).collect(),
        _ => {
            // few distinct values, repeated up to three times
            let m = (n / 2).max(k);
            let base: Vec<f64> = (0..m).map(|_| r.range(a, b)).collect();
            let mut v = Vec::new();
            for x in &base {
                for _ in 0..r.int(1, 3) {
                    v.push(*x);
                }
            }
            v
        }
    };
    if r.bool() {
        xs.sort_by(|p, q| p.partial_cmp(q).unwrap());
    }
    xs
}

fn distinct_count(xs: &[f64]) -> usize {
    let mut v = xs.to_vec();
    v.sort_by(|a, b| a.partial_cmp(b).unwrap());
    v.dedup();
    v.len()
}

fn fit_k(k: usize, xs: &[f64], ys: &[f64], w: Option<&[f64]>) -> Vec<f64> {
    match k {
        2 => Polynomial::<2>::least_squares(xs, ys, w).c.to_vec(),
        3 => Polynomial::<3>::least_squares(xs, ys, w).c.to_vec(),
        4 => Polynomial::<4>::least_squares(xs, ys, w).c.to_vec(),
        5 => Polynomial::<5>::least_squares(xs, ys, w).c.to_vec(),
        _ => Polynomial::<6>::least_squares(xs, ys, w).c.to_vec(),
    }
}

fn run_poly(c: &mut Ctx) {
    let k = c.rng.int(2, 6);
    let xs = abscissae(c, k);
    let n = xs.len();
    if distinct_count(&xs) < k {
        return;
    }
    let weighted = c.rng.bool();
    let ws: Vec<f64> = (0..n).map(|_| c.rng.log_range(0.1, 10.0)).collect();
    let wopt: Option<&[f64]> = if weighted { Some(&ws) } else { None };
    let wv = |i: usize| if weighted { ws[i] } else { 1.0 };
    let coef: Vec<f64> = (0..k).map(|_| c.rng.range(-5.0, 5.0)).collect();
    let exact = c.rng.bool();
    let ys: Vec<f64> = xs
        .iter()
        .map(|x| {
            let mut y = 0.0;
            for (j, cj) in coef.iter().enumerate() {
                y += cj * x.powi(j as i32);
            }
            if exact {
                y
            } else {
                y + 3.0 * c.rng.normal()
            }
        })
        .collect();
    c.family(&format!("poly/K={k}/{}/{}", if weighted { "weighted" } else { "unweighted" }, if exact { "exact" } else { "noisy" }));
    c.set_case(json!({"K": k, "xs": xs, "ys": ys, "weights": if weighted { json!(ws) } else { json!(null) }, "coefficients": coef}));
    let class = format!("K={k}/{}", if weighted { "weighted" } else { "unweighted" });
    let api = "Polynomial::least_squares";

    // Gram matrix and its condition number
    let mut g = DMatrix::<f64>::zeros(k, k);
    for i in 0..n {
        for r in 0..k {
            for cc in 0..k {
                g[(r, cc)] += wv(i) * xs[i].powi((r + cc) as i32);
            }
        }
    }
    let sv = g.clone().svd(false, false).singular_values;
    let (smax, smin) = (sv.max(), sv.min());
    let cond = if smin > 0.0 { smax / smin } else { f64::INFINITY };
    if !(cond < 1e6) {
        c.skip("Polynomial::least_squares :: residual orthogonal to every monomial");
        return;
    }
    c.maxf("max condition number judged", cond);
    let r = guard(|| fit_k(k, &xs, &ys, wopt));
    c.eval();
    let fit = match r {
        Ok(f) => f,
        Err(p) => {
            c.check(api, "succeeds on >= K distinct abscissae", &class, false, || format!("{} {} (cond {cond:e})", p.sig(), p.msg));
            return;
        }
    };
    let gmax = g.iter().fold(0.0f64, |a, b| a.max(b.abs()));
    let c1: f64 = fit.iter().map(|x| x.abs()).sum::<f64>() + coef.iter().map(|x| x.abs()).sum::<f64>();
    if exact {
        let cn = coef.iter().map(|x| x * x).sum::<f64>().sqrt();
        let err = fit.iter().zip(coef.iter()).map(|(a, b)| (a - b).powi(2)).sum::<f64>().sqrt();
        c.close(api, "exact data recovers the coefficients", &class, err, 0.0, 1e6 * U * cond * (cn + 1.0));
    }
    // orthogonality of the residual to every monomial column
    let mut worst = 0.0f64;
    let mut worst_k = 0;
    for kk in 0..k {
        let mut dot = 0.0;
        let mut mag = 0.0;
        for i in 0..n {
            let mut f = 0.0;
            for (j, cj) in fit.iter().enumerate() {
                f += cj * xs[i].powi(j as i32);
            }
            let xp = xs[i].powi(kk as i32);
            dot += wv(i) * (ys[i] - f) * xp;
            mag += wv(i) * ys[i].abs() * xp.abs();
        }
        let tol = 1e6 * U * cond * (gmax * c1 + mag);
        if dot.abs() / tol > worst {
            worst = dot.abs() / tol;
            worst_k = kk;
        }
    }
    c.maxf("err/tol orthogonality", worst);
    c.check(api, "residual orthogonal to every monomial", &class, worst <= 1.0, || {
        format!("weighted dot product of the residual with x^{worst_k} is {worst:e} times its bound (cond {cond:e}, n={n}); fit {fit:?}")
    });
    // Func1 evaluation agrees with the coefficients
    if k == 2 {
        let line = Line1::new([fit[0], fit[1]]);
        let x = c.rng.range(-4.0, 6.0);
        c.close("Line1::f", "b + m x", &class, line.f(x), fit[0] + fit[1] * x, 1e-12 * (1.0 + fit[0].abs() + fit[1].abs() * 6.0));
        // series best-fit line agrees with the degree-1 fit (unweighted, strictly increasing abscissae)
        if !weighted {
            let mut pairs: Vec<(f64, f64)> = xs.iter().cloned().zip(ys.iter().cloned()).collect();
            pairs.sort_by(|a, b| a.0.partial_cmp(&b.0).unwrap());
            let sx: Vec<f64> = pairs.iter().map(|p| p.0).collect();
            let sy: Vec<f64> = pairs.iter().map(|p| p.1).collect();
            if let Ok(Ok(s)) = guard(|| Series1::try_new(sx.clone(), sy.clone())) {
                if let Ok(l) = guard(|| s.best_fit_line()) {
                    c.eval();
                    let tol = 1e6 * U * cond * (c1 + 1.0) + 1e-9;
                    c.close("Series1::best_fit_line", "slope agrees with the degree-1 least-squares fit", &class, l.m(), fit[1], tol);
                    c.close("Series1::best_fit_line", "intercept agrees with the degree-1 least-squares fit", &class, l.b(), fit[0], tol * 6.0);
                }
            }
        }
    }
    if n > k {
        c.distinct(&(k, n, xs[0].to_bits(), ys[0].to_bits(), weighted));
    }
}

/// straight-line fits on tightly clustered, small-scale abscissae (spread 1e-8..1e-2): both the
/// degree-1 least-squares fit and the series best-fit line must recover an exact line.  The
/// tolerance carries the cancellation factor 1 + (centre/spread)^2 of the 2x2 normal equations.
fn run_small_line(c: &mut Ctx) {
    let w = c.rng.log_range(1e-8, 1e-2);
    let a = *c.rng.pick(&[0.0, 0.0, 3.0, -10.0, 100.0]) * w;
    let n = c.rng.int(3, 30);
    let mut xs: Vec<f64> = (0..n).map(|i| a + w * (2.0 * (i as f64 + c.rng.range(0.0, 0.9)) / n as f64 - 1.0)).collect();
    xs.sort_by(|p, q| p.partial_cmp(q).unwrap());
    xs.dedup();
    if xs.len() < 3 {
        return;
    }
    let (b, m) = (c.rng.range(-5.0, 5.0), c.rng.range(-5.0, 5.0) * *c.rng.pick(&[1.0, 1e3, 1e6]));
    let ys: Vec<f64> = xs.iter().map(|x| b + m * x).collect();
    c.family("small-scale-line");
    c.set_case(json!({"xs": xs, "ys": ys, "b": b, "m": m, "spread": w, "centre": a}));
    let kappa = 1.0 + (a / w).powi(2);
    let reach = a.abs() + w;
    let tol = 1e4 * U * kappa * (b.abs() + m.abs() * reach + 1e-300);
    let class = if a == 0.0 { "centred" } else { "off-centre" };
    let r = guard(|| Polynomial::<2>::least_squares(&xs, &ys, None).c);
    c.eval();
    match r {
        Ok(cf) => {
            let err = (cf[0] - b).abs() + (cf[1] - m).abs() * reach;
            c.close("Polynomial::least_squares", "exact line recovered on small-scale abscissae", class, err, 0.0, tol);
        }
        Err(p) => {
            c.check("Polynomial::least_squares", "succeeds on small-scale abscissae", class, false, || format!("{} {}", p.sig(), p.msg));
        }
    }
    if let Ok(Ok(s)) = guard(|| Series1::try_new(xs.clone(), ys.clone())) {
        let r = guard(|| s.best_fit_line());
        c.eval();
        match r {
            Ok(l) => {
                let err = (l.b() - b).abs() + (l.m() - m).abs() * reach;
                c.close("Series1::best_fit_line", "exact line recovered on small-scale abscissae", class, err, 0.0, tol);
            }
            Err(p) => {
                c.check("Series1::best_fit_line", "no-panic", class, false, || format!("{} {}", p.sig(), p.msg));
            }
        }
    }
    c.distinct(&(xs.len(), xs[0].to_bits(), m.to_bits()));
}

fn run_circle(c: &mut Ctx) {
    let rad = c.rng.log_range(1e-2, 1e2);
    let offm = *c.rng.pick(&[0.0, 1.0, 100.0, 1e3]);
    let ctr = Point2::new(c.rng.range(-offm, offm), c.rng.range(-offm, offm));
    let start = c.rng.range(0.0, TAU);
    let sweep = c.rng.range(PI / 3.0, TAU);
    let n = if c.rng.chance(0.15) { c.rng.int(3, 5) } else { c.rng.int(5, 200) };
    let noisy = n >= 5 && c.rng.chance(0.5);
    let sigma = if noisy { rad * c.rng.log_range(1e-5, 1e-2) } else { 0.0 };
    let pts: Vec<Point2> = (0..n)
        .map(|i| {
            let t = start + sweep * (i as f64 + c.rng.range(-0.3, 0.3)) / (n - 1) as f64;
            let rr = rad + sigma * c.rng.normal();
            Point2::new(ctr.x + rr * t.cos(), ctr.y + rr * t.sin())
        })
        .collect();
    let g = Circle2::new(ctr.x + rad * c.rng.range(-0.2, 0.2), ctr.y + rad * c.rng.range(-0.2, 0.2), rad * c.rng.range(0.8, 1.2));
    let gaussian = !noisy && c.rng.chance(0.3);
    let mode = if gaussian { BestFit::Gaussian(c.rng.range(1.5, 3.0)) } else { BestFit::All };
    c.family(&format!("circle-fit/{}/{}", if noisy { "noisy" } else { "exact" }, if gaussian { "gaussian" } else { "all" }));
    c.set_case(json!({"points": gen::j2(&pts), "guess": [g.x(), g.y(), g.r()], "true": [ctr.x, ctr.y, rad], "sigma": sigma, "gaussian": gaussian}));
    let class = if sweep < PI { "arc<180" } else { "arc>=180" };
    let api = "Circle2::fitting_circle";
    let r = guard(|| Circle2::fitting_circle(&pts, &g, mode));
    c.eval();
    let fit = match r {
        Err(p) => {
            c.check(api, "no-panic", class, false, || format!("{} {}", p.sig(), p.msg));
            return;
        }
        Ok(Err(e)) => {
            c.check(api, "succeeds from a nearby guess", class, false, || format!("Err({e}) n={n} sweep={sweep:.2} noisy={noisy} gaussian={gaussian}"));
            return;
        }
        Ok(Ok(f)) => f,
    };
    let off = ctr.coords.norm();
    // a handful of points with two of them (almost) on top of each other — the first and the last of
    // a full turn — determine the circle only as well as their separation allows
    let min_sep = (0..pts.len()).flat_map(|i| (i + 1..pts.len()).map(move |j| (i, j))).map(|(i, j)| (pts[i] - pts[j]).norm()).fold(f64::INFINITY, f64::min);
    // (Gaussian mode discards points by the spread of the residuals at the current estimate: with
    // fewer than 8 points that statistic is meaningless and fewer than three points may survive)
    if (!noisy && n <= 5 && min_sep < 0.1 * rad) || (gaussian && n < 8) {
        c.skip("Circle2::fitting_circle :: exact samples recover the circle");
    } else if !noisy {
        let err = ((fit.center - ctr).norm()).max((fit.r() - rad).abs());
        // conditioning of a short arc: centre sensitivity ~ 1/(1-cos(sweep/2))
        let k = 1.0 / (1.0 - (sweep / 2.0).min(PI).cos()).max(0.1);
        c.close(api, "exact samples recover the circle", class, err, 0.0, 1e-7 * rad * k + 1e3 * U * off * k);
    } else {
        // stationarity of sum (|p-c| - r)^2
        let mut jtr = [0.0f64; 3];
        let (mut jn, mut rn) = (0.0f64, 0.0f64);
        for p in &pts {
            let v = p - fit.center;
            let d = v.norm();
            let res = d - fit.r();
            let nn = v / d;
            jtr[0] += -nn.x * res;
            jtr[1] += -nn.y * res;
            jtr[2] += -res;
            jn += 2.0;
            rn += res * res;
        }
        let g = (jtr[0].powi(2) + jtr[1].powi(2) + jtr[2].powi(2)).sqrt();
        let denom = jn.sqrt() * rn.sqrt();
        // the residuals themselves are only known to u*(r + offset): that is the floor of the gradient
        let floor = 1e3 * U * (rad + off) * (n as f64).sqrt();
        c.maxf("circle stationarity ratio", g / (1e-4 * denom + floor));
        c.check(api, "stationary point of the summed squared radial residuals", class, g <= 1e-4 * denom + floor, || {
            format!("|J^T r| = {g:e}, |J||r| = {:e} (n={n}, sweep={sweep:.2}, sigma/r={:e})", jn.sqrt() * rn.sqrt(), sigma / rad)
        });
        // and it is close to the generator (sanity: not a far-away stationary point)
        let k = 1.0 / (1.0 - (sweep / 2.0).min(PI).cos()).max(0.1);
        c.check(api, "noisy fit stays near the generating circle", class, (fit.center - ctr).norm() <= 20.0 * sigma * k + 1e-6 * rad && (fit.r() - rad).abs() <= 20.0 * sigma * k + 1e-6 * rad, || {
            format!("centre off by {:e}, radius by {:e} (sigma {sigma:e}, k {k:.1})", (fit.center - ctr).norm(), (fit.r() - rad).abs())
        });
    }
    if n >= 6 {
        c.distinct(&(n, pts[0].x.to_bits(), g.x().to_bits()));
    }
}

fn run_three(c: &mut Ctx) {
    let size = c.rng.log_range(3e-2, 1e2);
    let offm = *c.rng.pick(&[0.0, 1.0, 100.0, 1e3]);
    let o = Point2::new(c.rng.range(-offm, offm), c.rng.range(-offm, offm));
    if c.rng.chance(0.1) {
        // exactly collinear: points with small-integer multiples of a dyadic direction
        let d = (c.rng.iint(-8, 8) as f64 / 8.0, c.rng.iint(-8, 8) as f64 / 8.0);
        if d.0 == 0.0 && d.1 == 0.0 {
            return;
        }
        let base = Point2::new((o.x * 8.0).round() / 8.0, (o.y * 8.0).round() / 8.0);
        let ks = [c.rng.iint(-20, 20) as f64, c.rng.iint(-20, 20) as f64, c.rng.iint(-20, 20) as f64];
        let p: Vec<Point2> = ks.iter().map(|k| Point2::new(base.x + d.0 * k, base.y + d.1 * k)).collect();
        c.family("three-points/collinear");
        c.set_case(json!({"points": gen::j2(&p)}));
        let r = guard(|| Circle2::from_3_points(p[0], p[1], p[2]));
        c.eval();
        match r {
            Ok(res) => {
                c.check("Circle2::from_3_points", "collinear => Err", "collinear", res.is_err(), || format!("Ok for exactly collinear points {p:?}"));
            }
            Err(e) => {
                c.check("Circle2::from_3_points", "no-panic", "collinear", false, || e.msg.clone());
            }
        }
        return;
    }
    // triangle with a minimum angle of at least 5 degrees
    let (p0, p1, p2, smin) = loop {
        let a = o + gen::unit2(&mut c.rng) * (size * c.rng.range(0.3, 1.0));
        let b = o + gen::unit2(&mut c.rng) * (size * c.rng.range(0.3, 1.0));
        let d = o + gen::unit2(&mut c.rng) * (size * c.rng.range(0.3, 1.0));
        let ang = |u: Point2, v: Point2, w: Point2| ((v - u).normalize().dot(&(w - u).normalize())).clamp(-1.0, 1.0).acos();
        if (a - b).norm() < 0.05 * size || (b - d).norm() < 0.05 * size || (a - d).norm() < 0.05 * size {
            continue;
        }
        let m = ang(a, b, d).min(ang(b, a, d)).min(ang(d, a, b));
        if m >= 5.0 * PI / 180.0 {
            break (a, b, d, m.sin());
        }
    };
    c.family("three-points/general");
    c.set_case(json!({"points": gen::j2(&[p0, p1, p2])}));
    let r = guard(|| Circle2::from_3_points(p0, p1, p2));
    c.eval();
    match r {
        Err(e) => {
            c.check("Circle2::from_3_points", "no-panic", "general", false, || e.msg.clone());
        }
        Ok(Err(e)) => {
            c.check("Circle2::from_3_points", "general position => Ok", "general", false, || format!("Err({e}) size={size:e} min-angle-sin={smin:.3}"));
        }
        Ok(Ok(cc)) => {
            let off = o.coords.norm() + size;
            let tol = 1e3 * U * (off * off + size * size) / (size * smin) + 1e-9 * cc.r();
            let worst = [p0, p1, p2].iter().map(|p| ((p - cc.center).norm() - cc.r()).abs()).fold(0.0, f64::max);
            c.close("Circle2::from_3_points", "passes through the three points", "general", worst, 0.0, tol);
            c.distinct(&(p0.x.to_bits(), p1.y.to_bits()));
        }
    }
}

fn run_ransac(c: &mut Ctx) {
    let rad = c.rng.log_range(0.1, 10.0);
    let ctr = Point2::new(c.rng.range(-10.0, 10.0), c.rng.range(-10.0, 10.0));
    let n = c.rng.int(30, 300);
    let frac_in = c.rng.range(0.5, 0.9);
    let n_in = ((n as f64) * frac_in) as usize;
    let start = c.rng.range(0.0, TAU);
    let sweep = c.rng.range(PI / 2.0, TAU);
    let mut pts: Vec<Point2> = (0..n_in)
        .map(|i| {
            let t = start + sweep * (i as f64 + c.rng.f()) / n_in as f64;
            Point2::new(ctr.x + rad * t.cos(), ctr.y + rad * t.sin())
        })
        .collect();
    for _ in n_in..n {
        pts.push(Point2::new(ctr.x + 3.0 * rad * c.rng.range(-1.0, 1.0), ctr.y + 3.0 * rad * c.rng.range(-1.0, 1.0)));
    }
    c.rng.shuffle(&mut pts);
    let tol = rad * c.rng.log_range(1e-3, 3e-2);
    let limits = c.rng.bool();
    let (min_r, max_r) = if limits { (Some(rad * 0.5), Some(rad * 2.0)) } else { (None, None) };
    c.family("ransac");
    c.set_case(json!({"points": gen::j2(&pts), "tol": tol, "true": [ctr.x, ctr.y, rad], "min_r": min_r, "max_r": max_r}));
    let r = guard(|| Circle2::ransac(&pts, tol, None, min_r, max_r));
    c.eval();
    match r {
        Err(e) => {
            c.check("Circle2::ransac", "no-panic", "ransac", false, || format!("{} {}", e.sig(), e.msg));
        }
        Ok(Err(e)) => {
            c.check("Circle2::ransac", "finds a candidate on contaminated data", "ransac", false, || format!("Err({e})"));
        }
        Ok(Ok(cc)) => {
            let count = |ctr: &Point2, r: f64, t: f64| pts.iter().filter(|p| ((*p - ctr).norm() - r).abs() < t).count();
            let gen_count = count(&ctr, rad, tol * (1.0 - 1e-6));
            let got_count = count(&cc.center, cc.r(), tol * (1.0 + 1e-6));
            c.check("Circle2::ransac", "at least as many inliers as the generating circle", "ransac", got_count >= gen_count, || {
                format!("result has {got_count} inliers, the generating circle {gen_count} (n={n}, tol={tol:e})")
            });
            if limits {
                c.check("Circle2::ransac", "radius limits respected", "ransac", cc.r() >= rad * 0.5 && cc.r() <= rad * 2.0, || format!("r={} limits [{}, {}]", cc.r(), rad * 0.5, rad * 2.0));
            }
            c.distinct(&(n, pts[0].x.to_bits(), tol.to_bits()));
        }
    }
}
