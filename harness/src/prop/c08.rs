//! C08 — Alignment parameters round-trip and Jacobians are true derivatives.
//!
//! Oracles: explicit matrix formulas for Rx·Ry·Rz, central finite differences of the residual
//! functions the Jacobians claim to differentiate, algebraic identities of the parameter objects.

use crate::gen;
use crate::report::{guard, Ctx};
use crate::{Spec, Stream};
use engeom::geom2::align2::{iso2_from_param, param_from_iso2, point_surface_jacobian, RcParams2};
use engeom::geom3::align3::jacobian::{point_plane_jacobian, point_plane_jacobian_rev, point_point_jacobian};
use engeom::geom3::align3::multi_param::ParamHandler;
use engeom::geom3::align3::{iso3_from_param, param_from_iso3, RcParams3, RotationMatrices};
use engeom::{Iso2, Iso3, Point2, Point3, SurfacePoint2, SurfacePoint3, UnitVec2, UnitVec3, Vector2, Vector3};
use parry3d_f64::na::{DVector, Matrix3, Translation3, UnitQuaternion, Vector3 as V3, Vector6};
use serde_json::json;
use std::f64::consts::PI;

pub fn spec() -> Spec {
    Spec {
        id: "C08",
        rule: "isometries over the full Euler range including pitch = +-pi/2 +- {0, 1e-12, 1e-9, 1e-6, 1e-4, 1e-2}; rotation centres up to 1e3 from the origin; parameter updates (pure translations, pure rotations, mixed); \
               points and surface points in general position (|p-rc| in [1e-2, 1e3]); every parameter index; ParamHandler with 2-5 bodies, any static index, with and without initial isometries. \
               Non-trivial = a non-identity isometry; distinct = hash of the isometry and centre bits.",
        assumptions: &[
            "regular branch tolerance 1e-9*(1+|t|+|rc|); inside the library's own gimbal band (|sin pitch| > 1-1e-8) the extraction snaps pitch to +-pi/2 by design, tolerance 3e-4*(1+|rc|) there",
            "nalgebra Euler extraction (param_from_iso3) loses accuracy as 1/sqrt(1-sin^2 pitch): tolerance 1e-9 + 16u/sqrt(1-s^2)",
            "Jacobian entries vs central differences with h = 1e-6, tolerance 1e-5*(1+|p-rc|); point-plane cases with |projection| < 1e-3 are skipped (kink of the absolute value)",
        ],
        streams: vec![
            Stream { name: "rc-params2", quick: 300_000, thorough: 10_000_000, run: run_rc2 },
            Stream { name: "rc-params3", quick: 300_000, thorough: 10_000_000, run: run_rc3 },
            Stream { name: "rotation-matrices", quick: 300_000, thorough: 10_000_000, run: run_rot },
            Stream { name: "jacobians", quick: 300_000, thorough: 10_000_000, run: run_jac },
            Stream { name: "param-handler", quick: 80_000, thorough: 3_000_000, run: run_handler },
        ],
        required: vec![
            ("RcParams2::from_initial :: reproduces the isometry", 10_000),
            ("RcParams3::from_initial :: reproduces the isometry", 10_000),
            ("RcParams3::from_initial :: reproduces the isometry (gimbal band)", 1000),
            ("RotationMatrices::from_euler :: d.", 10_000),
            ("point_surface_jacobian", 10_000),
            ("point_plane_jacobian ::", 5000),
            ("point_plane_jacobian_rev", 5000),
            ("point_point_jacobian", 10_000),
            ("ParamHandler::new :: get_transform(i) == initial[i]", 3000),
        ],
        exhaustive_note: None,
    }
}

fn rx(a: f64) -> Matrix3<f64> {
    let (s, c) = a.sin_cos();
    Matrix3::new(1.0, 0.0, 0.0, 0.0, c, -s, 0.0, s, c)
}
fn ry(a: f64) -> Matrix3<f64> {
    let (s, c) = a.sin_cos();
    Matrix3::new(c, 0.0, s, 0.0, 1.0, 0.0, -s, 0.0, c)
}
fn rz(a: f64) -> Matrix3<f64> {
    let (s, c) = a.sin_cos();
    Matrix3::new(c, -s, 0.0, s, c, 0.0, 0.0, 0.0, 1.0)
}
fn rxyz(a: f64, b: f64, c: f64) -> Matrix3<f64> {
    rx(a) * ry(b) * rz(c)
}

fn euler_triple(c: &mut Ctx) -> (f64, f64, f64, &'static str) {
    let a = if c.rng.chance(0.15) { *c.rng.pick(&[0.0, PI / 2.0, -PI / 2.0, PI, -PI]) } else { c.rng.range(-PI, PI) };
    let g = if c.rng.chance(0.15) { *c.rng.pick(&[0.0, PI / 2.0, -PI / 2.0, PI, -PI]) } else { c.rng.range(-PI, PI) };
    let (b, kind) = match c.rng.int(0, 9) {
        0 | 1 => {
            let off = *c.rng.pick(&[0.0, 1e-12, 1e-9, 3e-8, 1e-7, 1e-6, 1e-4, 1e-2]) * c.rng.sign();
            (c.rng.sign() * PI / 2.0 + off, "near-gimbal")
        }
        2 => (0.0, "zero-pitch"),
        _ => (c.rng.range(-PI / 2.0, PI / 2.0), "general"),
    };
    (a, b, g, kind)
}

fn quat_xyz(a: f64, b: f64, g: f64) -> UnitQuaternion<f64> {
    UnitQuaternion::from_axis_angle(&V3::x_axis(), a) * UnitQuaternion::from_axis_angle(&V3::y_axis(), b) * UnitQuaternion::from_axis_angle(&V3::z_axis(), g)
}

fn mat_diff3(a: &Iso3, b: &Iso3) -> f64 {
    (a.to_homogeneous() - b.to_homogeneous()).norm()
}
fn mat_diff2(a: &Iso2, b: &Iso2) -> f64 {
    (a.to_homogeneous() - b.to_homogeneous()).norm()
}

fn pick_rc(c: &mut Ctx) -> f64 {
    *c.rng.pick(&[0.0, 1.0, 10.0, 100.0, 1e3])
}

fn run_rc2(c: &mut Ctx) {
    let tmax = *c.rng.pick(&[0.0, 1.0, 100.0, 1e3]);
    let ang = if c.rng.chance(0.2) { *c.rng.pick(&[0.0, PI, -PI, PI / 2.0, -PI / 2.0, crate::rng::next_down(PI), -crate::rng::next_down(PI)]) } else { c.rng.range(-PI, PI) };
    let t = Iso2::new(Vector2::new(c.rng.range(-tmax, tmax), c.rng.range(-tmax, tmax)), ang);
    let rcm = pick_rc(c);
    let rc = Point2::new(c.rng.range(-rcm, rcm), c.rng.range(-rcm, rcm));
    c.family("rc-params2");
    c.set_case(json!({"iso": gen::jiso2(&t), "rc": [rc.x, rc.y]}));
    let scale = 1.0 + t.translation.vector.norm() + rc.coords.norm();
    let tol = 1e-9 * scale;
    let api = "RcParams2";
    let r = guard(|| RcParams2::from_initial(&t, &rc));
    c.eval();
    let Ok(mut p) = r else {
        c.check("RcParams2::from_initial", "no-panic", "2d", false, || "panic".into());
        return;
    };
    c.close("RcParams2::from_initial", "reproduces the isometry", "2d", mat_diff2(p.transform(), &t), 0.0, tol);
    c.close(api, "inverse * transform == identity", "2d", mat_diff2(&(p.inverse() * p.transform()), &Iso2::identity()), 0.0, tol);
    c.close(api, "current_rc == transform * rc", "2d", (p.current_rc() - p.transform() * rc).norm(), 0.0, tol);
    c.check(api, "rc kept", "2d", *p.rc() == rc, || "rc changed".into());
    // parameter <-> isometry
    let r = guard(|| iso2_from_param(&param_from_iso2(&t)));
    c.eval();
    if let Ok(t2) = r {
        c.close("iso2_from_param(param_from_iso2)", "identity", "2d", mat_diff2(&t2, &t), 0.0, 1e-12 * scale);
    }
    // updates
    for _ in 0..3 {
        let x0 = *p.x();
        let before = *p.transform();
        let kind = c.rng.int(0, 2);
        let delta = Vector2::new(c.rng.range(-5.0, 5.0), c.rng.range(-5.0, 5.0));
        let dth = c.rng.range(-1.0, 1.0);
        let x1 = match kind {
            0 => V3::new(x0.x + delta.x, x0.y + delta.y, x0.z),
            1 => V3::new(x0.x, x0.y, x0.z + dth),
            _ => V3::new(x0.x + delta.x, x0.y + delta.y, x0.z + dth),
        };
        if guard(|| p.set(&x1)).is_err() {
            c.check(api, "set no-panic", "2d", false, || "panic".into());
            return;
        }
        c.eval();
        let tol2 = 1e-9 * (scale + 10.0);
        c.check(api, "x() returns what was set", "2d", *p.x() == x1, || "x differs".into());
        c.close(api, "after set: inverse * transform == identity", "2d", mat_diff2(&(p.inverse() * p.transform()), &Iso2::identity()), 0.0, tol2);
        c.close(api, "after set: current_rc == transform * rc", "2d", (p.current_rc() - p.transform() * rc).norm(), 0.0, tol2);
        c.close(api, "after set: rotation() is the rotation part", "2d", (p.rotation().rotation.angle() - p.transform().rotation.angle()).sin().abs(), 0.0, 1e-9);
        if kind == 0 {
            let want = Iso2::translation(delta.x, delta.y) * before;
            c.close(api, "pure-translation parameter change translates by that vector", "2d", mat_diff2(p.transform(), &want), 0.0, tol2);
        }
        if kind == 1 {
            // a pure rotation change keeps the moved rotation centre where it was
            let rc_before = before * rc;
            c.close(api, "pure-rotation parameter change keeps the moved centre", "2d", (p.current_rc() - rc_before).norm(), 0.0, tol2);
        }
    }
    if t != Iso2::identity() {
        c.distinct(&(t.translation.vector.x.to_bits(), ang.to_bits(), rc.x.to_bits()));
    }
}

fn run_rc3(c: &mut Ctx) {
    let (a, b, g, kind) = euler_triple(c);
    let tmax = *c.rng.pick(&[0.0, 1.0, 100.0, 1e3]);
    let q = quat_xyz(a, b, g);
    let t = Iso3::from_parts(Translation3::new(c.rng.range(-tmax, tmax), c.rng.range(-tmax, tmax), c.rng.range(-tmax, tmax)), q);
    let rcm = pick_rc(c);
    let rc = Point3::new(c.rng.range(-rcm, rcm), c.rng.range(-rcm, rcm), c.rng.range(-rcm, rcm));
    c.family(&format!("rc-params3/{kind}"));
    c.set_case(json!({"euler_xyz": [a, b, g], "iso": gen::jiso3(&t), "rc": [rc.x, rc.y, rc.z]}));
    let scale = 1.0 + t.translation.vector.norm() + rc.coords.norm();
    let sin_p = q.to_rotation_matrix().matrix()[(0, 2)];
    let in_band = sin_p.abs() > 1.0 - 1e-8;
    // just outside the band asin() is ill-conditioned: error ~ u / sqrt(1 - s^2)
    let cond = 16.0 * 2.2e-16 / (1.0 - sin_p * sin_p).max(2.2e-16).sqrt();
    let tol = if in_band { 3e-4 * (1.0 + rc.coords.norm()) } else { (1e-9 + cond) * scale };
    let class = if in_band { "gimbal-band" } else { "regular" };
    let api = "RcParams3";
    let r = guard(|| RcParams3::from_initial(&t, &rc));
    c.eval();
    let Ok(mut p) = r else {
        c.check("RcParams3::from_initial", "no-panic", class, false, || "panic".into());
        return;
    };
    c.close("RcParams3::from_initial", if in_band { "reproduces the isometry (gimbal band)" } else { "reproduces the isometry" }, class, mat_diff3(p.transform(), &t), 0.0, tol);
    let tol_id = 1e-9 * scale;
    c.close(api, "inverse * transform == identity", class, mat_diff3(&(p.inverse() * p.transform()), &Iso3::identity()), 0.0, tol_id);
    c.close(api, "current_rc == transform * rc", class, (p.current_rc() - p.transform() * rc).norm(), 0.0, tol_id);
    c.close(api, "current_rc == initial * rc", class, (p.current_rc() - t * rc).norm(), 0.0, tol_id);

    // nalgebra parameter round trip
    let r = guard(|| iso3_from_param(&param_from_iso3(&t)));
    c.eval();
    if let Ok(t2) = r {
        let s20 = q.to_rotation_matrix().matrix()[(2, 0)];
        let cond2 = 64.0 * 2.2e-16 / (1.0 - s20 * s20).max(2.2e-16).sqrt();
        // within 1e-14 of gimbal lock (in nalgebra's roll-pitch-yaw convention) the pitch is snapped
        // to +-pi/2: an error of at most sqrt(2e-14) rad
        let tol = if s20.abs() > 1.0 - 1e-14 { 1e-6 } else { 1e-9 * (1.0 + t.translation.vector.norm()) + cond2 };
        c.close("iso3_from_param(param_from_iso3)", "identity", kind, mat_diff3(&t2, &t), 0.0, tol);
    }

    for _ in 0..3 {
        let x0 = *p.x();
        let before = *p.transform();
        let k = c.rng.int(0, 2);
        let delta = Vector3::new(c.rng.range(-5.0, 5.0), c.rng.range(-5.0, 5.0), c.rng.range(-5.0, 5.0));
        let dr = Vector3::new(c.rng.range(-1.0, 1.0), c.rng.range(-1.0, 1.0), c.rng.range(-1.0, 1.0));
        let mut x1 = x0;
        if k != 1 {
            x1[0] += delta.x;
            x1[1] += delta.y;
            x1[2] += delta.z;
        }
        if k != 0 {
            x1[3] += dr.x;
            x1[4] += dr.y;
            x1[5] += dr.z;
        }
        if guard(|| p.set(&x1)).is_err() {
            c.check(api, "set no-panic", class, false, || "panic".into());
            return;
        }
        c.eval();
        let tol2 = 1e-9 * (scale + 10.0);
        c.check(api, "x() returns what was set", class, *p.x() == x1, || "x differs".into());
        c.close(api, "after set: inverse * transform == identity", class, mat_diff3(&(p.inverse() * p.transform()), &Iso3::identity()), 0.0, tol2);
        c.close(api, "after set: current_rc == transform * rc", class, (p.current_rc() - p.transform() * rc).norm(), 0.0, tol2);
        // the rotation matrices object describes the rotation of the transform
        let rq = p.rotations().q.to_rotation_matrix();
        c.close(api, "after set: rotations().q is the rotation of the transform", class, (rq.matrix() - p.transform().rotation.to_rotation_matrix().matrix()).norm(), 0.0, 1e-9);
        if k == 0 {
            let want = Iso3::translation(delta.x, delta.y, delta.z) * before;
            c.close(api, "pure-translation parameter change translates by that vector", class, mat_diff3(p.transform(), &want), 0.0, tol2);
        }
        if k == 1 {
            let rc_before = before * rc;
            c.close(api, "pure-rotation parameter change keeps the moved centre", class, (p.current_rc() - rc_before).norm(), 0.0, tol2);
        }
    }
    c.distinct(&(a.to_bits(), b.to_bits(), g.to_bits(), rc.x.to_bits()));
}

fn run_rot(c: &mut Ctx) {
    let (a, b, g, kind) = euler_triple(c);
    c.family(&format!("rotation-matrices/{kind}"));
    c.set_case(json!({"euler_xyz": [a, b, g]}));
    let api = "RotationMatrices::from_euler";
    let r = guard(|| RotationMatrices::from_euler(a, b, g));
    c.eval();
    let Ok(rm) = r else {
        c.check(api, "no-panic", kind, false, || "panic".into());
        return;
    };
    let m = rxyz(a, b, g);
    let q = *rm.q.to_rotation_matrix().matrix();
    c.close(api, "q == Rx(a) Ry(b) Rz(c)", kind, (q - m).norm(), 0.0, 1e-12);
    c.check(api, "r stores the angles", kind, rm.r.x == a && rm.r.y == b && rm.r.z == g, || "angles".into());
    let h = 1e-6;
    let dx = (rxyz(a + h, b, g) - rxyz(a - h, b, g)) / (2.0 * h);
    let dy = (rxyz(a, b + h, g) - rxyz(a, b - h, g)) / (2.0 * h);
    let dz = (rxyz(a, b, g + h) - rxyz(a, b, g - h)) / (2.0 * h);
    c.close(api, "d.x == dR/da", kind, (rm.d.x - dx).norm(), 0.0, 1e-8);
    c.close(api, "d.y == dR/db", kind, (rm.d.y - dy).norm(), 0.0, 1e-8);
    c.close(api, "d.z == dR/dc", kind, (rm.d.z - dz).norm(), 0.0, 1e-8);
    let mt = m.transpose();
    c.close(api, "rd.x == d.x R^T", kind, (rm.rd.x - rm.d.x * mt).norm(), 0.0, 1e-12);
    c.close(api, "rd.y == d.y R^T", kind, (rm.rd.y - rm.d.y * mt).norm(), 0.0, 1e-12);
    c.close(api, "rd.z == d.z R^T", kind, (rm.rd.z - rm.d.z * mt).norm(), 0.0, 1e-12);

    // from_rotation(q).q == q
    let qq = quat_xyz(a, b, g);
    let r = guard(|| RotationMatrices::from_rotation(&qq));
    c.eval();
    if let Ok(r2) = r {
        let sin_p = m[(0, 2)];
        let in_band = sin_p.abs() > 1.0 - 1e-8;
        let cond = 16.0 * 2.2e-16 / (1.0 - sin_p * sin_p).max(2.2e-16).sqrt();
        let tol = if in_band { 3e-4 } else { 1e-9 + cond };
        let d = (r2.q.to_rotation_matrix().matrix() - qq.to_rotation_matrix().matrix()).norm();
        c.close("RotationMatrices::from_rotation", if in_band { "q round trip (gimbal band)" } else { "q round trip" }, kind, d, 0.0, tol);
        // the stored Euler angles reproduce the stored quaternion
        let d2 = (rxyz(r2.r.x, r2.r.y, r2.r.z) - r2.q.to_rotation_matrix().matrix()).norm();
        c.close("RotationMatrices::from_rotation", "stored angles describe the stored rotation", kind, d2, 0.0, 1e-12);
    }
    c.distinct(&(a.to_bits(), b.to_bits(), g.to_bits()));
}

fn run_jac(c: &mut Ctx) {
    // ---- 2D
    {
        let tm = *c.rng.pick(&[1.0, 100.0]);
        let t = gen::iso2(&mut c.rng, tm);
        let rcm = *c.rng.pick(&[1.0, 10.0, 90.0, 1e3]);
        let rc = Point2::new(c.rng.range(-rcm, rcm), c.rng.range(-rcm, rcm));
        let lever = c.rng.log_range(1e-2, 1e3);
        let params = RcParams2::from_initial(&t, &rc);
        let p = params.current_rc() + gen::unit2(&mut c.rng) * lever;
        let n = UnitVec2::new_normalize(gen::unit2(&mut c.rng));
        let sp = SurfacePoint2::new(p - n.into_inner() * c.rng.range(-2.0, 2.0) + gen::unit2(&mut c.rng) * c.rng.range(0.0, 2.0), n);
        c.family("jacobian/2d point-surface");
        c.set_case(json!({"iso": gen::jiso2(&t), "rc": [rc.x, rc.y], "p": [p.x, p.y], "surface_point": [sp.point.x, sp.point.y], "normal": [n.x, n.y]}));
        let r = guard(|| point_surface_jacobian(&p, &sp, &params));
        c.eval();
        if let Ok(j) = r {
            let p0 = params.inverse() * p;
            let x = *params.x();
            let h = 1e-6;
            for k in 0..3 {
                let f = |d: f64| {
                    let mut q = params.clone();
                    let mut xx = x;
                    xx[k] += d;
                    q.set(&xx);
                    sp.scalar_projection(&(q.transform() * p0))
                };
                let fd = (f(h) - f(-h)) / (2.0 * h);
                // finite-difference noise: rounding of coordinates of size (|p|+|rc|) divided by h
                let tol = 1e-5 * (1.0 + lever) + 1e-9 * (p.coords.norm() + rc.coords.norm());
                c.close("point_surface_jacobian", &format!("entry {k} == d residual / d x{k}"), "2d", j[k], fd, tol);
            }
        } else {
            c.check("point_surface_jacobian", "no-panic", "2d", false, || "panic".into());
        }
    }
    // ---- 3D
    let (a, b, g, kind) = euler_triple(c);
    let q = quat_xyz(a, b, g);
    let tmax = *c.rng.pick(&[1.0, 100.0]);
    let t = Iso3::from_parts(Translation3::new(c.rng.range(-tmax, tmax), c.rng.range(-tmax, tmax), c.rng.range(-tmax, tmax)), q);
    let rcm = *c.rng.pick(&[1.0, 10.0, 90.0, 1e3]);
    let rc = Point3::new(c.rng.range(-rcm, rcm), c.rng.range(-rcm, rcm), c.rng.range(-rcm, rcm));
    let lever = c.rng.log_range(1e-2, 1e3);
    let mut params = RcParams3::from_initial(&t, &rc);
    // move away from the construction state so that the translation parameters are not zero
    let mut x = *params.x();
    if c.rng.bool() {
        for k in 0..3 {
            x[k] += c.rng.range(-3.0, 3.0);
        }
        for k in 3..6 {
            x[k] += c.rng.range(-0.5, 0.5);
        }
        params.set(&x);
    }
    let x = *params.x();
    let p = params.current_rc() + gen::unit3(&mut c.rng) * lever;
    let n = UnitVec3::new_normalize(gen::unit3(&mut c.rng));
    let dist = c.rng.log_range(1e-2, 2.0) * c.rng.sign();
    let lateral = {
        let u = gen::unit3(&mut c.rng);
        (u - n.into_inner() * u.dot(&n)) * c.rng.range(0.0, 2.0)
    };
    // surface point such that n.(p - c) = dist
    let sp = SurfacePoint3::new(p - n.into_inner() * dist + lateral, n);
    c.family(&format!("jacobian/3d/{kind}"));
    c.set_case(json!({"euler_xyz": [a, b, g], "iso": gen::jiso3(&t), "x": x.as_slice(), "rc": [rc.x, rc.y, rc.z], "p": [p.x, p.y, p.z], "surface_point": [sp.point.x, sp.point.y, sp.point.z], "normal": [n.x, n.y, n.z]}));
    let p0 = params.inverse() * p;
    let h = 1e-6;
    let fdtol = 1e-5 * (1.0 + lever) + 1e-9 * (p.coords.norm() + rc.coords.norm() + x.fixed_rows::<3>(0).norm());
    let at = |k: usize, d: f64| -> RcParams3 {
        let mut q = params.clone();
        let mut xx = x;
        xx[k] += d;
        q.set(&xx);
        q
    };

    // point-plane: derivative of |n.(T(x) p0 - c)|
    let r = guard(|| point_plane_jacobian(&p, &sp, &params));
    c.eval();
    match r {
        Ok(j) => {
            if dist.abs() < 1e-3 {
                c.note("point_plane_jacobian case on the kink (not eligible)");
            } else {
                for k in 0..6 {
                    let f = |d: f64| sp.scalar_projection(&(at(k, d).transform() * p0)).abs();
                    let fd = (f(h) - f(-h)) / (2.0 * h);
                    c.close("point_plane_jacobian", &format!("entry {k} == d residual / d x{k}"), kind, j[k], fd, fdtol);
                }
            }
        }
        Err(_) => {
            c.check("point_plane_jacobian", "no-panic", kind, false, || "panic".into());
        }
    }
    // point-point: derivative of |T(x) p0 - c|.  The norm is strongly curved near zero, so scalar
    // finite differences are useless for close points; the chain rule is used instead:
    // d|m - c|/dx_k = n . dm/dx_k with n = (m - c)/|m - c| and dm/dx_k from central differences of the
    // (smooth, vector valued) point motion.  Valid for every distance above the library's own
    // coincidence threshold of 1e-8.
    {
        let dpp = if c.rng.bool() { c.rng.log_range(1e-7, 1e-2) } else { c.rng.log_range(1e-2, 3.0) };
        let cpt = p - gen::unit3(&mut c.rng) * dpp;
        let r = guard(|| point_point_jacobian(&p, &cpt, &params));
        c.eval();
        match r {
            Ok(j) => {
                let nn = (p - cpt) / (p - cpt).norm();
                let class = if dpp < 1e-3 { "close-points" } else { "far-points" };
                for k in 0..6 {
                    let v = (at(k, h).transform() * p0 - at(k, -h).transform() * p0) / (2.0 * h);
                    let want = nn.dot(&v);
                    let tol = fdtol + 1e3 * 2.2e-16 * (p.coords.norm() + 1.0) / dpp * (1.0 + lever);
                    c.close("point_point_jacobian", &format!("entry {k} == d residual / d x{k}"), class, j[k], want, tol);
                }
            }
            Err(_) => {
                c.check("point_point_jacobian", "no-panic", kind, false, || "panic".into());
            }
        }
    }
    // reference-side variant: the reference surface point moves with T(x) T(x0)^-1, the test point
    // stays; validity assumption (documented): the test point lies on the normal line of c
    {
        let c_now = SurfacePoint3::new(params.current_rc() + gen::unit3(&mut c.rng) * lever, n);
        let d = c.rng.log_range(1e-2, 2.0) * c.rng.sign();
        let pt = c_now.point + n.into_inner() * d;
        let r = guard(|| point_plane_jacobian_rev(&pt, &c_now, &params));
        c.eval();
        match r {
            Ok(j) => {
                let inv = *params.inverse();
                let c0 = SurfacePoint3::new(inv * c_now.point, inv * c_now.normal);
                for k in 0..6 {
                    let f = |dd: f64| {
                        let q = at(k, dd);
                        let moved = SurfacePoint3::new(q.transform() * c0.point, q.transform() * c0.normal);
                        moved.scalar_projection(&pt).abs()
                    };
                    let fd = (f(h) - f(-h)) / (2.0 * h);
                    let tol = 1e-5 * (1.0 + lever) + 1e-9 * (pt.coords.norm() + rc.coords.norm() + x.fixed_rows::<3>(0).norm());
                    c.close("point_plane_jacobian_rev", &format!("entry {k} == d residual / d x{k}"), kind, j[k], fd, tol);
                }
            }
            Err(_) => {
                c.check("point_plane_jacobian_rev", "no-panic", kind, false, || "panic".into());
            }
        }
    }
    c.distinct(&(a.to_bits(), b.to_bits(), rc.x.to_bits(), p.x.to_bits()));
}

fn run_handler(c: &mut Ctx) {
    let n = c.rng.int(2, 5);
    let static_i = c.rng.int(0, n - 1);
    let with_initial = c.rng.chance(0.7);
    let means: Vec<Point3> = (0..n).map(|_| Point3::new(c.rng.range(-20.0, 20.0), c.rng.range(-20.0, 20.0), c.rng.range(-20.0, 20.0))).collect();
    let initial: Vec<Iso3> = (0..n)
        .map(|_| {
            let (a, b, g, _) = euler_triple(c);
            // keep away from the gimbal band: that tolerance is judged in rc-params3
            let b = b.clamp(-1.4, 1.4);
            Iso3::from_parts(Translation3::new(c.rng.range(-5.0, 5.0), c.rng.range(-5.0, 5.0), c.rng.range(-5.0, 5.0)), quat_xyz(a, b, g))
        })
        .collect();
    c.family(&format!("param-handler/{n}-bodies/{}", if with_initial { "with-initial" } else { "no-initial" }));
    c.set_case(json!({"bodies": n, "static": static_i, "with_initial": with_initial, "initial": initial.iter().map(gen::jiso3).collect::<Vec<_>>(), "means": gen::j3(&means)}));
    let api = "ParamHandler";
    let r = guard(|| ParamHandler::new(static_i, means.clone(), if with_initial { Some(&initial[..]) } else { None }));
    c.eval();
    let Ok(mut hd) = r else {
        c.check("ParamHandler::new", "no-panic", "any", false, || "panic".into());
        return;
    };
    let tol = 1e-9 * 100.0;
    for i in 0..n {
        let want = if with_initial { initial[i] } else { Iso3::identity() };
        let class = if i == static_i { "static-body" } else { "moving-body" };
        c.close("ParamHandler::new", "get_transform(i) == initial[i]", class, mat_diff3(&hd.get_transform(i), &want), 0.0, tol);
    }
    c.check(api, "parameter vector has 6 entries per moving body", "any", hd.params().len() == 6 * (n - 1), || format!("{}", hd.params().len()));
    // p_index maps moving bodies onto 0..n-1 without gaps
    let mut idx: Vec<usize> = (0..n).filter(|i| *i != static_i).map(|i| hd.p_index(i)).collect();
    idx.sort();
    c.check(api, "p_index is a bijection onto the parameter blocks", "any", idx == (0..n - 1).collect::<Vec<_>>(), || format!("{idx:?}"));
    // relative transform
    let (ia, ib) = (c.rng.int(0, n - 1), c.rng.int(0, n - 1));
    let rel = hd.relative_transform(ia, ib);
    let want = hd.get_transform(ib).inverse() * hd.get_transform(ia);
    c.close(api, "relative_transform(a,b) == T_b^-1 T_a", "any", mat_diff3(&rel, &want), 0.0, tol);
    // set_param: every moving body takes its block; the static body does not move
    let static_before = hd.get_transform(static_i);
    let x = DVector::from_fn(6 * (n - 1), |i, _| if i % 6 < 3 { c.rng.range(-3.0, 3.0) } else { c.rng.range(-1.0, 1.0) });
    if guard(|| hd.set_param(&x)).is_err() {
        c.check(api, "set_param no-panic", "any", false, || "panic".into());
        return;
    }
    c.eval();
    c.close(api, "static body unchanged by set_param", "any", mat_diff3(&hd.get_transform(static_i), &static_before), 0.0, 1e-12);
    for i in 0..n {
        if i == static_i {
            continue;
        }
        let blk = hd.p_index(i) * 6;
        let xb = Vector6::new(x[blk], x[blk + 1], x[blk + 2], x[blk + 3], x[blk + 4], x[blk + 5]);
        let mut reference = RcParams3::from_initial(&(if with_initial { initial[i] } else { Iso3::identity() }), &means[i]);
        reference.set(&xb);
        c.close(api, "after set_param body i == RcParams3 with its block", "moving-body", mat_diff3(&hd.get_transform(i), reference.transform()), 0.0, tol);
        let p = &hd.params[i];
        c.close(api, "after set_param: inverse * transform == identity", "moving-body", mat_diff3(&(p.inverse() * p.transform()), &Iso3::identity()), 0.0, tol);
        c.close(api, "after set_param: current_rc == transform * rc", "moving-body", (p.current_rc() - p.transform() * means[i]).norm(), 0.0, tol);
    }
    c.distinct(&(n, static_i, with_initial, means[0].x.to_bits()));
}
