//! C03 — Measurements do not depend on the coordinate frame.
//!
//! Metamorphic monitor: every case executes the real API twice, once in frame A and once in frame
//! B = T·A, and compares scalars (must be equal) and geometry (must be related by T).

use crate::gen;
use crate::oracle::{self, closest_on_seg2, closest_on_seg3, closest_on_tri, dist_tri, U};
use crate::report::{guard, Ctx};
use crate::{Spec, Stream};
use engeom::common::DistMode;
use engeom::geom2::{Line2, Segment2};
use engeom::metrology::line_profiles::point_curve2_deviation;
use engeom::metrology::{Distance2, Distance3, Measurement};
use engeom::{
    Curve2, Curve3, Iso2, Iso3, Plane3, Point2, Point3, PointCloud, PointCloudFeatures, SurfacePoint2, SurfacePoint3, To2D, To3D, TransformBy,
    UnitVec2, UnitVec3, Vector2, Vector3,
};
use serde_json::json;

pub fn spec() -> Spec {
    Spec {
        id: "C03",
        rule: "twin executions: entity and query in frame A, the same moved by a random isometry T (any axis/angle incl. exact 0, +-pi/2, pi; translations to 1e3) in frame B. \
               Entities: surface points 2D/3D, segments, planes, 2D/3D curves, meshes, point clouds (with/without normals/colours), distances, point slices. \
               Non-trivial = T is not the identity and the entity has >= 3 elements; distinct = hash of (entity fingerprint, isometry bits).",
        assumptions: &[
            "equivariance of closest points is judged only when the arg-min is unique (all elements within 1e-6*extent of the minimum have their closest points within 1e-5*extent of each other)",
            "tolerance 1e-9*extent + 1e3*u*(offset + |translation| + moved offset)",
        ],
        streams: vec![
            Stream { name: "surface-points", quick: 20_000, thorough: 1_000_000, run: run_sp },
            Stream { name: "curve2", quick: 8000, thorough: 300_000, run: run_curve2 },
            Stream { name: "curve3", quick: 6000, thorough: 200_000, run: run_curve3 },
            Stream { name: "plane-distance", quick: 20_000, thorough: 1_000_000, run: run_plane },
            Stream { name: "mesh", quick: 3000, thorough: 100_000, run: run_mesh },
            Stream { name: "point-cloud", quick: 4000, thorough: 100_000, run: run_cloud },
        ],
        required: vec![
            ("Curve2::transformed_by :: vertices", 1000),
            ("Curve2::at_closest_to_point :: equivariant", 1000),
            ("Curve3::transformed_by :: vertices", 1000),
            ("Plane3::transform_by", 1000),
            ("Mesh::transform", 500),
            ("PointCloud::transform", 500),
            ("Distance", 1000),
        ],
        exhaustive_note: None,
    }
}

fn tnorm2(t: &Iso2) -> f64 {
    t.translation.vector.norm()
}
fn tnorm3(t: &Iso3) -> f64 {
    t.translation.vector.norm()
}

fn pick_iso2(c: &mut Ctx) -> Iso2 {
    let tmax = *c.rng.pick(&[0.0, 1.0, 10.0, 1e3]);
    gen::iso2(&mut c.rng, tmax)
}
fn pick_iso3(c: &mut Ctx) -> Iso3 {
    let tmax = *c.rng.pick(&[0.0, 1.0, 10.0, 1e3]);
    gen::iso3(&mut c.rng, tmax)
}

fn run_sp(c: &mut Ctx) {
    // ---- 2D
    let t = pick_iso2(c);
    let p = Point2::new(c.rng.range(-50.0, 50.0), c.rng.range(-50.0, 50.0));
    let n = UnitVec2::new_normalize(gen::unit2(&mut c.rng));
    let q = Point2::new(c.rng.range(-50.0, 50.0), c.rng.range(-50.0, 50.0));
    let sp = SurfacePoint2::new(p, n);
    c.family("surface-point-2d");
    c.set_case(json!({"point": [p.x, p.y], "normal": [n.x, n.y], "query": [q.x, q.y], "iso": gen::jiso2(&t)}));
    let eps = 1e-12 * (100.0 + tnorm2(&t));
    let r = guard(|| {
        let a = sp.transformed(&t);
        let b = &t * sp;
        let b2 = &t * &sp;
        (a, b, b2, sp.scalar_projection(&q), a.scalar_projection(&(t * q)), sp.planar_distance(&q), a.planar_distance(&(t * q)), sp.projection(&q), a.projection(&(t * q)))
    });
    c.evals(6);
    match r {
        Err(e) => {
            c.check("SurfacePoint2::transformed", "no-panic", "2d", false, || e.msg.clone());
        }
        Ok((a, b, b2, s0, s1, d0, d1, pr0, pr1)) => {
            c.close("SurfacePoint2::transformed", "point-moves-by-T", "2d", (a.point - t * p).norm(), 0.0, eps);
            c.close("SurfacePoint2::transformed", "normal-only-rotates", "2d", (a.normal.into_inner() - t.rotation * n.into_inner()).norm(), 0.0, 1e-12);
            c.check("&Iso2 * SurfacePoint2", "operator == transformed", "2d", b.point == a.point && b.normal == a.normal && b2.point == a.point && b2.normal == a.normal, || "operator forms differ".into());
            c.close("SurfacePoint2::scalar_projection", "invariant", "2d", s1, s0, eps);
            c.close("SurfacePoint2::planar_distance", "invariant", "2d", d1, d0, eps);
            c.close("SurfacePoint2::projection", "equivariant", "2d", (pr1 - t * pr0).norm(), 0.0, eps);
        }
    }
    // segment
    let p2 = Point2::new(c.rng.range(-50.0, 50.0), c.rng.range(-50.0, 50.0));
    if let Ok(seg) = Segment2::try_new(p, p2) {
        let r = guard(|| {
            let s2 = seg.transform_by(&t);
            (s2, seg.projected_parameter(&q), s2.projected_parameter(&(t * q)), seg.projected_point(&q), s2.projected_point(&(t * q)))
        });
        c.evals(3);
        if let Ok((s2, u0, u1, pp0, pp1)) = r {
            c.close("Segment2::transform_by", "endpoints-move-by-T", "2d", (s2.a - t * seg.a).norm() + (s2.b - t * seg.b).norm(), 0.0, eps);
            let l = (p2 - p).norm().max(1e-3);
            c.close("Segment2::projected_parameter", "invariant", "2d", u1, u0, 1e-9 * (1.0 + (100.0 + tnorm2(&t)) / l));
            c.close("Segment2::projected_point", "equivariant", "2d", (pp1 - t * pp0).norm(), 0.0, 1e-9 * (100.0 + tnorm2(&t)));
        }
    }

    // ---- 3D
    let t3 = pick_iso3(c);
    let p = Point3::new(c.rng.range(-50.0, 50.0), c.rng.range(-50.0, 50.0), c.rng.range(-50.0, 50.0));
    let n = UnitVec3::new_normalize(gen::unit3(&mut c.rng));
    let q = Point3::new(c.rng.range(-50.0, 50.0), c.rng.range(-50.0, 50.0), c.rng.range(-50.0, 50.0));
    let sp = SurfacePoint3::new(p, n);
    c.family("surface-point-3d");
    c.set_case(json!({"point": [p.x, p.y, p.z], "normal": [n.x, n.y, n.z], "query": [q.x, q.y, q.z], "iso": gen::jiso3(&t3)}));
    let eps = 1e-12 * (100.0 + tnorm3(&t3));
    let r = guard(|| {
        let a = sp.transformed(&t3);
        let b = &t3 * sp;
        let b2 = &t3 * &sp;
        (a, b, b2, sp.scalar_projection(&q), a.scalar_projection(&(t3 * q)), sp.planar_distance(&q), a.planar_distance(&(t3 * q)), sp.projection(&q), a.projection(&(t3 * q)))
    });
    c.evals(6);
    if let Ok((a, b, b2, s0, s1, d0, d1, pr0, pr1)) = r {
        c.close("SurfacePoint3::transformed", "point-moves-by-T", "3d", (a.point - t3 * p).norm(), 0.0, eps);
        c.close("SurfacePoint3::transformed", "normal-only-rotates", "3d", (a.normal.into_inner() - t3.rotation * n.into_inner()).norm(), 0.0, 1e-12);
        c.check("&Iso3 * SurfacePoint3", "operator == transformed", "3d", b.point == a.point && b.normal == a.normal && b2.point == a.point && b2.normal == a.normal, || "operator forms differ".into());
        c.close("SurfacePoint3::scalar_projection", "invariant", "3d", s1, s0, eps);
        c.close("SurfacePoint3::planar_distance", "invariant", "3d", d1, d0, eps);
        c.close("SurfacePoint3::projection", "equivariant", "3d", (pr1 - t3 * pr0).norm(), 0.0, eps);
    }
    // point slices
    let pts: Vec<Point3> = (0..c.rng.int(0, 6)).map(|_| Point3::new(c.rng.range(-5.0, 5.0), c.rng.range(-5.0, 5.0), c.rng.range(-5.0, 5.0))).collect();
    let r = guard(|| (pts.as_slice().transform_by(&t3), (&pts).transform_by(&t3)));
    c.evals(2);
    if let Ok((a, b)) = r {
        let ok = a.len() == pts.len() && b.len() == pts.len() && a.iter().zip(pts.iter()).all(|(x, y)| *x == t3 * y) && a == b;
        c.check("TransformBy<Iso3> for point slices", "each-point-moves-by-T", "3d", ok, || "slice transform differs from T*p".into());
    }
    c.distinct(&(p.x.to_bits(), q.x.to_bits(), t3.translation.vector.x.to_bits()));
}

fn unique_min2(v: &[Point2], q: &Point2, bd: f64, ext: f64) -> bool {
    let mut pts: Vec<Point2> = Vec::new();
    for i in 0..v.len() - 1 {
        let (cp, _) = closest_on_seg2(&v[i], &v[i + 1], q);
        if (cp - q).norm() <= bd + 1e-6 * ext {
            pts.push(cp);
        }
    }
    pts.iter().all(|p| (p - pts[0]).norm() <= 1e-5 * ext)
}

fn unique_min3(v: &[Point3], q: &Point3, bd: f64, ext: f64) -> bool {
    let mut pts: Vec<Point3> = Vec::new();
    for i in 0..v.len() - 1 {
        let (cp, _) = closest_on_seg3(&v[i], &v[i + 1], q);
        if (cp - q).norm() <= bd + 1e-6 * ext {
            pts.push(cp);
        }
    }
    pts.iter().all(|p| (p - pts[0]).norm() <= 1e-5 * ext)
}

fn run_curve2(c: &mut Ctx) {
    let case = gen::curve_case2(&mut c.rng, 200);
    c.family(&format!("curve2/{}", case.closure));
    let t = pick_iso2(c);
    let t2 = pick_iso2(c);
    c.set_case(json!({"curve": case.json(), "iso": gen::jiso2(&t), "iso2": gen::jiso2(&t2)}));
    let class = format!("2d/{}", case.closure);
    let Ok(Ok(a)) = guard(|| Curve2::from_points(&case.pts, case.tol, case.force_closed)) else { return };
    let r = guard(|| a.transformed_by(&t));
    c.eval();
    let b = match r {
        Ok(b) => b,
        Err(e) => {
            c.check("Curve2::transformed_by", "no-panic", &class, false, || format!("{} {}", e.sig(), e.msg));
            return;
        }
    };
    let va = a.points().to_vec();
    let vb = b.points().to_vec();
    let m = oracle::PolyModel2::new(&va);
    let ext = m.extent().max(1e-300);
    let mb = oracle::PolyModel2::new(&vb);
    let eps = 1e-9 * ext + 1e3 * U * (m.offset() + tnorm2(&t) + mb.offset());
    let same = va.len() == vb.len() && va.iter().zip(vb.iter()).all(|(x, y)| t * x == *y);
    if !c.check("Curve2::transformed_by", "vertices == T*v", &class, same, || format!("{} vs {} vertices or coordinates differ", va.len(), vb.len())) {
        return;
    }
    c.check("Curve2::transformed_by", "tol-kept", &class, a.tol() == b.tol(), || format!("{} vs {}", a.tol(), b.tol()));
    c.check("Curve2::transformed_by", "closedness-kept", &class, a.is_closed() == b.is_closed(), || format!("{} vs {}", a.is_closed(), b.is_closed()));
    c.close("Curve2::length", "invariant", &class, b.length(), a.length(), 1e-12 * a.length() + 1e2 * U * (m.offset() + mb.offset()) * va.len() as f64);

    // stations exactly on the vertices: point moves with T, direction (the average of the two edge
    // directions) only rotates.  Vertices where the curve doubles back exactly are left out (the
    // average is undefined there).
    {
        let (la, lb) = (a.lengths().clone(), b.lengths().clone());
        for _ in 0..6 {
            let i = c.rng.int(0, va.len() - 1);
            let r = guard(|| (a.at_length(la[i]).map(|s| (s.point(), s.direction().into_inner(), s.index())), b.at_length(lb[i]).map(|s| (s.point(), s.direction().into_inner(), s.index()))));
            c.evals(2);
            let Ok((Some((p0, d0, i0)), Some((p1, d1, i1)))) = r else { continue };
            // the station must be the vertex itself in both curves (equal lengths of consecutive
            // vertices cannot occur: from_points removes duplicates)
            if (p0 - va[i]).norm() > eps || (p1 - vb[i]).norm() > eps {
                continue;
            }
            let _ = (i0, i1);
            let prev = if i > 0 { Some(va[i] - va[i - 1]) } else if a.is_closed() { Some(va[va.len() - 1] - va[va.len() - 2]) } else { None };
            let next = if i + 1 < va.len() { Some(va[i + 1] - va[i]) } else if a.is_closed() { Some(va[1] - va[0]) } else { None };
            let fold = match (prev, next) {
                (Some(u), Some(w)) => (u.normalize() + w.normalize()).norm() < 1e-3,
                _ => false,
            };
            if fold {
                c.skip("CurveStation2::direction :: at a vertex rotates with T");
                continue;
            }
            let emin = prev.map(|v| v.norm()).unwrap_or(f64::INFINITY).min(next.map(|v| v.norm()).unwrap_or(f64::INFINITY));
            let sharp = match (prev, next) {
                (Some(u), Some(w)) => (u.normalize() + w.normalize()).norm(),
                _ => 2.0,
            };
            let dtol = (1e-9 + 1e2 * U * (m.offset() + mb.offset()) / emin) * 4.0 / sharp;
            c.close("CurveStation2::direction", "at a vertex rotates with T", &class, (d1 - t.rotation * d0).norm(), 0.0, dtol);
        }
    }

    for _ in 0..12 {
        let i = c.rng.int(0, va.len() - 2);
        let e = va[i + 1] - va[i];
        let q = match c.rng.int(0, 3) {
            0 => va[i] + e * c.rng.f(),
            1 => va[i] + e * c.rng.f() + Vector2::new(-e.y, e.x).normalize() * (ext * c.rng.log_range(1e-6, 1.0) * c.rng.sign()),
            2 => va[i] + gen::unit2(&mut c.rng) * (ext * 10.0),
            _ => Point2::new(va[i].x + c.rng.range(-ext, ext), va[i].y + c.rng.range(-ext, ext)),
        };
        let qb = t * q;
        let r = guard(|| {
            let sa = a.at_closest_to_point(&q);
            let sb = b.at_closest_to_point(&qb);
            let dev_a = point_curve2_deviation(&sa, &q).deviation;
            let dev_b = point_curve2_deviation(&sb, &qb).deviation;
            (a.dist_to_point(&q), b.dist_to_point(&qb), sa.point(), sb.point(), sa.length_along(), sb.length_along(), sa.direction().into_inner(), sb.direction().into_inner(), dev_a, dev_b)
        });
        c.evals(6);
        let Ok((d0, d1, p0, p1, l0, l1, dir0, dir1, dev0, dev1)) = r else {
            c.check("Curve2::at_closest_to_point", "no-panic", &class, false, || "panic in twin execution".into());
            continue;
        };
        c.close("Curve2::dist_to_point", "invariant", &class, d1, d0, eps);
        let bd = m.dist(&q);
        let tied: Vec<usize> = (0..va.len() - 1).filter(|&k| (closest_on_seg2(&va[k], &va[k + 1], &q).0 - q).norm() <= bd + 1e-6 * ext).collect();
        if unique_min2(&va, &q, bd, ext) {
            // the moved vertices are rounded (u x offset each), which turns an edge of length e by
            // u x offset / e; the foot of a query at distance d moves by d times that angle
            // (the shortest of the tied edges and their neighbours: next to a vertex the foot is
            // governed by the directions of both edges that meet there)
            let lo = tied[0].saturating_sub(1);
            let hi = (tied[tied.len() - 1] + 1).min(va.len() - 2);
            let e_near = (lo..=hi).map(|k| (va[k + 1] - va[k]).norm()).fold(f64::INFINITY, f64::min);
            // (edges tied for the minimum may each be reported: their closest points differ by `spread`)
            let cp0 = closest_on_seg2(&va[tied[0]], &va[tied[0] + 1], &q).0;
            let spread = tied.iter().map(|&k| (closest_on_seg2(&va[k], &va[k + 1], &q).0 - cp0).norm()).fold(0.0, f64::max);
            let lever = 1e2 * U * (m.offset() + mb.offset()) * bd / e_near + 2.0 * spread;
            if c.verbose && (p1 - t * p0).norm() > eps + lever {
                let k = tied[0];
                println!("  q {:?} bd {bd:e} tied {:?} edge {k}: {:?} -> {:?} (len {e_near:e}); p0 {:?} p1 {:?} T p0 {:?}; eps {eps:e} lever {lever:e}; prev edge len {:?}, next edge len {:?}", q, tied, va[k], va[k + 1], p0, p1, t * p0, if k > 0 { Some((va[k] - va[k - 1]).norm()) } else { None }, va.get(k + 2).map(|w| (w - va[k + 1]).norm()));
            }
            c.close("Curve2::at_closest_to_point", "equivariant point", &class, (p1 - t * p0).norm(), 0.0, eps + lever);
            // Station-level quantities (arc length, direction, signed deviation) are only defined
            // unambiguously when a single edge attains the minimum strictly inside itself (a curve
            // that revisits a point has two stations at one place).
            let k = tied[0];
            let elen = (va[k + 1] - va[k]).norm();
            let interior = tied.len() == 1 && (p0 - va[k]).norm() > 1e-6 * ext && (p0 - va[k + 1]).norm() > 1e-6 * ext;
            if interior {
                c.close("Curve2::at_closest_to_point", "equivariant length-along", &class, l1, l0, 1e-9 * a.length() + eps);
                let dtol = 1e-9 + 1e2 * U * (m.offset() + mb.offset()) / elen;
                c.close("CurveStation2::direction", "rotates with T", &class, (dir1 - t.rotation * dir0).norm(), 0.0, dtol);
                // deviation sign/magnitude (outside the 1e-6 absolute coincidence band of the library)
                if bd > 2e-6 {
                    c.close("point_curve2_deviation", "invariant", &class, dev1, dev0, eps);
                }
            } else {
                c.skip("Curve2::at_closest_to_point :: equivariant length-along");
            }
        } else {
            c.skip("Curve2::at_closest_to_point :: equivariant point");
        }
    }
    // round trip and composition
    let r = guard(|| (b.transformed_by(&t.inverse()), a.transformed_by(&(t2 * t)), b.transformed_by(&t2)));
    c.evals(3);
    if let Ok((back, comp, seq)) = r {
        let eps2 = eps + 1e3 * U * (tnorm2(&t2) + tnorm2(&t) + m.offset()) * 4.0;
        let ok = back.points().len() == va.len() && back.points().iter().zip(va.iter()).all(|(x, y)| (x - y).norm() <= eps2);
        c.check("Curve2::transformed_by", "T then T^-1 restores", &class, ok, || "round trip differs".into());
        let ok = comp.points().len() == seq.points().len() && comp.points().iter().zip(seq.points().iter()).all(|(x, y)| (x - y).norm() <= eps2 + 1e3 * U * (t2 * (t * va[0])).coords.norm());
        c.check("Curve2::transformed_by", "composition == sequence", &class, ok, || "A*B differs from B then A".into());
    }
    if va.len() >= 3 && t != Iso2::identity() {
        c.distinct(&(va.len(), va[0].x.to_bits(), t.rotation.angle().to_bits(), t.translation.vector.x.to_bits()));
    }
}

fn run_curve3(c: &mut Ctx) {
    let case = gen::curve_case3(&mut c.rng, 200);
    c.family("curve3");
    let t = pick_iso3(c);
    c.set_case(json!({"curve": case.json(), "iso": gen::jiso3(&t)}));
    let class = "3d";
    let Ok(Ok(a)) = guard(|| Curve3::from_points(&case.pts, case.tol)) else { return };
    let r = guard(|| a.transformed_by(&t));
    c.eval();
    let b = match r {
        Ok(b) => b,
        Err(e) => {
            c.check("Curve3::transformed_by", "no-panic", class, false, || format!("{} {}", e.sig(), e.msg));
            return;
        }
    };
    let va = a.points().to_vec();
    let vb = b.points().to_vec();
    let m = oracle::PolyModel3::new(&va);
    let mb = oracle::PolyModel3::new(&vb);
    let ext = m.extent().max(1e-300);
    let eps = 1e-9 * ext + 1e3 * U * (m.offset() + tnorm3(&t) + mb.offset());
    let same = va.len() == vb.len() && va.iter().zip(vb.iter()).all(|(x, y)| t * x == *y);
    if !c.check("Curve3::transformed_by", "vertices == T*v", class, same, || format!("{} vs {} vertices or coordinates differ", va.len(), vb.len())) {
        return;
    }
    c.check("Curve3::transformed_by", "tol-kept", class, a.tol() == b.tol(), || format!("{} vs {}", a.tol(), b.tol()));
    c.close("Curve3::length", "invariant", class, b.length(), a.length(), 1e-12 * a.length() + 1e2 * U * (m.offset() + mb.offset()) * va.len() as f64);
    for _ in 0..10 {
        let i = c.rng.int(0, va.len() - 2);
        let e = va[i + 1] - va[i];
        let q = match c.rng.int(0, 2) {
            0 => va[i] + e * c.rng.f(),
            1 => va[i] + e * c.rng.f() + gen::unit3(&mut c.rng) * (ext * c.rng.log_range(1e-6, 1.0)),
            _ => va[i] + gen::unit3(&mut c.rng) * (ext * 10.0),
        };
        let qb = t * q;
        let r = guard(|| {
            let sa = a.at_closest_to_point(&q);
            let sb = b.at_closest_to_point(&qb);
            (a.dist_to_point(&q), b.dist_to_point(&qb), sa.point(), sb.point(), sa.length_along(), sb.length_along())
        });
        c.evals(4);
        let Ok((d0, d1, p0, p1, l0, l1)) = r else { continue };
        c.close("Curve3::dist_to_point", "invariant", class, d1, d0, eps);
        let bd = m.dist(&q);
        let tied: Vec<usize> = (0..va.len() - 1).filter(|&k| (closest_on_seg3(&va[k], &va[k + 1], &q).0 - q).norm() <= bd + 1e-6 * ext).collect();
        if unique_min3(&va, &q, bd, ext) {
            // (see the 2-D stream: rounding of the moved vertices turns short edges; a distant query
            // amplifies it)
            let lo = tied[0].saturating_sub(1);
            let hi = (tied[tied.len() - 1] + 1).min(va.len() - 2);
            let e_near = (lo..=hi).map(|k| (va[k + 1] - va[k]).norm()).fold(f64::INFINITY, f64::min);
            let cp0 = closest_on_seg3(&va[tied[0]], &va[tied[0] + 1], &q).0;
            let spread = tied.iter().map(|&k| (closest_on_seg3(&va[k], &va[k + 1], &q).0 - cp0).norm()).fold(0.0, f64::max);
            let lever = 1e2 * U * (m.offset() + mb.offset()) * bd / e_near + 2.0 * spread;
            c.close("Curve3::at_closest_to_point", "equivariant point", class, (p1 - t * p0).norm(), 0.0, eps + lever);
            let k = tied[0];
            let interior = tied.len() == 1 && (p0 - va[k]).norm() > 1e-6 * ext && (p0 - va[k + 1]).norm() > 1e-6 * ext;
            if interior {
                c.close("Curve3::at_closest_to_point", "equivariant length-along", class, l1, l0, 1e-9 * a.length() + eps);
            } else {
                c.skip("Curve3::at_closest_to_point :: equivariant length-along");
            }
        } else {
            c.skip("Curve3::at_closest_to_point :: equivariant point");
        }
    }
    let r = guard(|| b.transformed_by(&t.inverse()));
    c.eval();
    if let Ok(back) = r {
        let ok = back.points().len() == va.len() && back.points().iter().zip(va.iter()).all(|(x, y)| (x - y).norm() <= 4.0 * eps);
        c.check("Curve3::transformed_by", "T then T^-1 restores", class, ok, || "round trip differs".into());
    }
    if va.len() >= 3 && t != Iso3::identity() {
        c.distinct(&(va.len(), va[0].x.to_bits(), t.translation.vector.x.to_bits(), t.rotation.quaternion().w.to_bits()));
    }
}

fn run_plane(c: &mut Ctx) {
    let t = pick_iso3(c);
    let scale = c.rng.log_range(1e-2, 1e2);
    let rp = |c: &mut Ctx| Point3::new(c.rng.range(-scale, scale), c.rng.range(-scale, scale), c.rng.range(-scale, scale));
    let (p1, p2, p3) = (rp(c), rp(c), rp(c));
    let q = rp(c);
    c.family("plane3");
    c.set_case(json!({"p1": [p1.x, p1.y, p1.z], "p2": [p2.x, p2.y, p2.z], "p3": [p3.x, p3.y, p3.z], "q": [q.x, q.y, q.z], "iso": gen::jiso3(&t)}));
    let nn = (p2 - p1).cross(&(p3 - p1));
    if nn.norm() < 1e-3 * scale * scale {
        return;
    }
    let eps = 1e-11 * (scale + tnorm3(&t));
    let r = guard(|| {
        let pl = Plane3::from((&p1, &p2, &p3));
        let pt = pl.transform_by(&t);
        (pl.signed_distance_to_point(&q), pt.signed_distance_to_point(&(t * q)), pl.normal.into_inner(), pt.normal.into_inner(), pt.signed_distance_to_point(&(t * p1)), pt.signed_distance_to_point(&(t * p3)), pl.project_point(&q), pt.project_point(&(t * q)))
    });
    c.evals(4);
    match r {
        Err(e) => {
            c.check("Plane3::transform_by", "no-panic", "3d", false, || e.msg.clone());
        }
        Ok((s0, s1, n0, n1, on1, on3, pr0, pr1)) => {
            c.close("Plane3::transform_by", "signed distance invariant", "3d", s1, s0, eps);
            c.close("Plane3::transform_by", "normal == R*n", "3d", (n1 - t.rotation * n0).norm(), 0.0, 1e-12);
            c.close("Plane3::transform_by", "contains T*p for p on the plane", "3d", on1.abs() + on3.abs(), 0.0, eps);
            c.close("Plane3::project_point", "equivariant", "3d", (pr1 - t * pr0).norm(), 0.0, eps);
        }
    }
    // Distance3 / Distance2
    c.family("distance");
    let dir = if c.rng.bool() { Some(UnitVec3::new_normalize(gen::unit3(&mut c.rng))) } else { None };
    let r = guard(|| {
        let d = Distance3::new(p1, p2, dir);
        // a rigidly moved copy
        let dm = Distance3::new(t * p1, t * p2, dir.map(|u| t * u));
        (d.value(), dm.value(), d.reversed().value())
    });
    c.evals(3);
    if let Ok((v0, v1, vr)) = r {
        c.close("Distance3::value", "invariant", "3d", v1, v0, eps);
        c.close("Distance3::reversed", "keeps value", "3d", vr, v0, 1e-12 * scale);
    }
    let a2 = Point2::new(p1.x, p1.y);
    let b2 = Point2::new(p2.x, p2.y);
    if (a2 - b2).norm() > 1e-6 * scale {
        let dir2 = if c.rng.bool() { Some(UnitVec2::new_normalize(gen::unit2(&mut c.rng))) } else { None };
        let r = guard(|| {
            let d2 = Distance2::new(a2, b2, dir2);
            let d3 = d2.to_3d(&t);
            let back = d3.to_2d(&t.inverse());
            (d2.value(), d3.value(), back.value(), back.a, back.b, back.direction.into_inner(), d2.direction.into_inner(), d3.a, d3.b)
        });
        c.evals(3);
        if let Ok((v2, v3, vb, ba, bb, bdir, d2dir, a3, b3)) = r {
            c.close("Distance2::to_3d", "value preserved", "2d->3d", v3, v2, eps);
            c.close("Distance2::to_3d", "points == T*(x,y,0)", "2d->3d", (a3 - t * a2.to_3d()).norm() + (b3 - t * b2.to_3d()).norm(), 0.0, eps);
            c.close("Distance3::to_2d", "to_3d(T) then to_2d(T^-1) is the identity (value)", "3d->2d", vb, v2, eps);
            c.close("Distance3::to_2d", "to_3d(T) then to_2d(T^-1) is the identity (points)", "3d->2d", (ba - a2).norm() + (bb - b2).norm(), 0.0, eps);
            c.close("Distance3::to_2d", "to_3d(T) then to_2d(T^-1) is the identity (direction)", "3d->2d", (bdir - d2dir).norm(), 0.0, 1e-9);
        }
    }
    let _ = (p3.to_2d(), Vector3::zeros());
    c.distinct(&(p1.x.to_bits(), t.translation.vector.y.to_bits()));
}

fn run_mesh(c: &mut Ctx) {
    let raw = gen::random_mesh(&mut c.rng, 400, true);
    c.family(&format!("mesh/{}", raw.name));
    let t = pick_iso3(c);
    c.set_case(json!({"mesh": raw.json(), "iso": gen::jiso3(&t)}));
    let class = "mesh";
    let a = raw.to_mesh(false);
    let mut b = raw.to_mesh(false);
    let r = guard(|| b.transform(&t));
    c.eval();
    if let Err(e) = r {
        c.check("Mesh::transform", "no-panic", class, false, || e.msg.clone());
        return;
    }
    let ext = raw.extent().max(1e-300);
    let moved = raw.transformed(&t);
    let eps = 1e-9 * ext + 1e3 * U * (raw.offset_norm() + tnorm3(&t) + moved.offset_norm());
    let ok = b.vertices().len() == raw.v.len() && b.vertices().iter().zip(raw.v.iter()).all(|(x, y)| (x - t * y).norm() <= eps) && b.faces() == a.faces();
    if !c.check("Mesh::transform", "vertices move by T, faces unchanged", class, ok, || "vertex/face mismatch".into()) {
        return;
    }
    let nf = raw.f.len();
    for _ in 0..10 {
        let tr = raw.f[c.rng.int(0, nf - 1)];
        let p = raw.v[tr[0] as usize];
        let q = p + gen::unit3(&mut c.rng) * (ext * c.rng.log_range(1e-5, 3.0));
        let qb = t * q;
        let r = guard(|| {
            let sa = a.surf_closest_to(&q);
            let sb = b.surf_closest_to(&qb);
            let da = a.measure_point_deviation(&q, DistMode::ToPoint).value();
            let db = b.measure_point_deviation(&qb, DistMode::ToPoint).value();
            let pa = a.measure_point_deviation(&q, DistMode::ToPlane).value();
            let pb = b.measure_point_deviation(&qb, DistMode::ToPlane).value();
            (sa, sb, da, db, pa, pb)
        });
        c.evals(6);
        let Ok((sa, sb, da, db, pa, pb)) = r else {
            c.check("Mesh::surf_closest_to", "no-panic", class, false, || "panic in twin execution".into());
            continue;
        };
        c.close("Mesh::surf_closest_to", "distance invariant", class, (sb.point - qb).norm(), (sa.point - q).norm(), eps);
        let (bd, _) = oracle::brute_mesh(&raw.v, &raw.f, &q);
        // unique arg-min: all faces tied within 1e-6 ext share one closest point; unique normal: one face
        let mut cps: Vec<(Point3, usize)> = Vec::new();
        for (fi, tr) in raw.f.iter().enumerate() {
            let (x, y, z) = (raw.v[tr[0] as usize], raw.v[tr[1] as usize], raw.v[tr[2] as usize]);
            if dist_tri(&x, &y, &z, &q) <= bd + 1e-6 * ext {
                cps.push((closest_on_tri(&x, &y, &z, &q), fi));
            }
        }
        let unique_pt = cps.iter().all(|p| (p.0 - cps[0].0).norm() <= 1e-5 * ext);
        if unique_pt {
            // the moved vertices are rounded (u x offset), which tilts a face of height h by
            // u x offset / h; the foot of a query at distance d moves by d times that angle
            let h_min = cps
                .iter()
                .map(|(_, fi)| {
                    let tr = raw.f[*fi];
                    let (x, y, z) = (raw.v[tr[0] as usize], raw.v[tr[1] as usize], raw.v[tr[2] as usize]);
                    let emax = (y - x).norm().max((z - y).norm()).max((x - z).norm());
                    (y - x).cross(&(z - x)).norm() / emax
                })
                .fold(f64::INFINITY, f64::min);
            // faces tied for the minimum (within 1e-6 ext) may each be reported: their closest
            // points differ by `spread` (below 1e-5 ext, or the point would not count as unique)
            let spread = cps.iter().map(|x| (x.0 - cps[0].0).norm()).fold(0.0, f64::max);
            let lever = 1e2 * U * (raw.offset_norm() + moved.offset_norm()) * bd / h_min + 2.0 * spread;
            if c.verbose && (sb.point - t * sa.point).norm() > eps + lever {
                println!("  q {:?} bd {bd:e} ext {ext:e}; tied faces {:?}; sa {:?} sb {:?} T sa {:?}; t^-1 sb {:?}", q, cps.iter().map(|x| (x.1, x.0)).collect::<Vec<_>>(), sa.point, sb.point, t * sa.point, t.inverse() * sb.point);
                for (_, fi) in &cps {
                    let tr = raw.f[*fi];
                    println!("    face {fi}: {:?} {:?} {:?}", raw.v[tr[0] as usize], raw.v[tr[1] as usize], raw.v[tr[2] as usize]);
                }
            }
            c.close("Mesh::surf_closest_to", "equivariant point", class, (sb.point - t * sa.point).norm(), 0.0, eps + lever);
            if bd > 2e-6 {
                c.close("Mesh::measure_point_deviation", "point-mode magnitude invariant", class, db.abs(), da.abs(), eps);
            }
            if cps.len() == 1 {
                // the normal of a small triangle far from the origin is computed with cancellation
                let tr = raw.f[cps[0].1];
                let (x, y, z) = (raw.v[tr[0] as usize], raw.v[tr[1] as usize], raw.v[tr[2] as usize]);
                let emax = (y - x).norm().max((z - y).norm()).max((x - z).norm());
                let h = (y - x).cross(&(z - x)).norm() / emax;
                let ntol = 1e-9 + 1e2 * U * (raw.offset_norm() + moved.offset_norm()) / h;
                c.close("Mesh::surf_closest_to", "normal only rotates", class, (sb.normal.into_inner() - t.rotation * sa.normal.into_inner()).norm(), 0.0, ntol);
                c.close("Mesh::measure_point_deviation", "plane-mode invariant", class, pb, pa, eps);
                if bd > 2e-6 {
                    c.close("Mesh::measure_point_deviation", "point-mode invariant", class, db, da, eps);
                }
            }
        } else {
            c.skip("Mesh::surf_closest_to :: equivariant point");
        }
    }
    // ---- queries that take the motion as an argument: project_with_tol(p, .., Some(T)) must be
    // project_with_tol(T p, .., None), and indices_in_tol likewise
    {
        let mut qs: Vec<Point3> = Vec::new();
        let mut want: Vec<usize> = Vec::new();
        let max_dist = ext * c.rng.log_range(1e-3, 1.0);
        let max_angle = c.rng.range(0.1, 1.4);
        let mut borderline = false;
        for k in 0..8 {
            let tr = raw.f[c.rng.int(0, nf - 1)];
            let p = raw.v[tr[0] as usize] + (raw.v[tr[1] as usize] - raw.v[tr[0] as usize]) * c.rng.range(0.1, 0.6) + (raw.v[tr[2] as usize] - raw.v[tr[0] as usize]) * c.rng.range(0.1, 0.3);
            let q_world = p + gen::unit3(&mut c.rng) * (max_dist * c.rng.log_range(0.05, 2.0));
            let q_arg = t.inverse() * q_world; // so that T q_arg is the point that is really projected
            let r = guard(|| (a.project_with_tol(&q_arg, max_dist, max_angle, Some(&t)).map(|x| (x.0.point, x.1)), a.project_with_tol(&(t * q_arg), max_dist, max_angle, None).map(|x| (x.0.point, x.1))));
            c.evals(2);
            let Ok((with_arg, direct)) = r else {
                c.check("Mesh::project_with_tol", "no-panic", class, false, || "panic".into());
                continue;
            };
            // borderline cases (distance or angle within 1e-6 of its limit) are not judged
            let moved_q = t * q_arg;
            let s = a.surf_closest_to(&moved_q);
            let off = moved_q - s.point;
            let ang = if off.norm() > 0.0 { s.normal.angle(&off) } else { 0.0 };
            let near = (off.norm() - max_dist).abs() < 1e-6 * ext || (ang - max_angle).abs() < 1e-6 || ((std::f64::consts::PI - ang) - max_angle).abs() < 1e-6 || off.norm() < 1e-9 * ext;
            if near {
                borderline = true;
                c.skip("Mesh::project_with_tol :: the motion passed as an argument equals moving the point first");
            } else {
                let same = match (&with_arg, &direct) {
                    (Some(x), Some(y)) => (x.0 - y.0).norm() <= eps && x.1 == y.1,
                    (None, None) => true,
                    _ => false,
                };
                c.check("Mesh::project_with_tol", "the motion passed as an argument equals moving the point first", class, same, || format!("with Some(T): {:?}; on T p directly: {:?} (max_dist {max_dist:e}, max_angle {max_angle})", with_arg, direct));
            }
            qs.push(q_arg);
            if direct.is_some() {
                want.push(k);
            }
        }
        if !borderline {
            let r = guard(|| a.indices_in_tol(&qs, max_dist, max_angle, Some(&t)));
            c.eval();
            match r {
                Ok(got) => {
                    c.check("Mesh::indices_in_tol", "indices of exactly the points that project within the tolerances after the motion", class, got == want, || format!("got {:?}, expected {:?}", got, want));
                }
                Err(p) => {
                    c.check("Mesh::indices_in_tol", "no-panic", class, false, || format!("{} {}", p.sig(), p.msg));
                }
            }
        }
    }
    if t != Iso3::identity() {
        c.distinct(&(nf, raw.v[0].x.to_bits(), t.translation.vector.x.to_bits(), t.rotation.quaternion().w.to_bits()));
    }
}

fn run_cloud(c: &mut Ctx) {
    let n = c.rng.int(0, 40);
    let has_n = c.rng.bool();
    let has_c = c.rng.bool();
    let pts: Vec<Point3> = (0..n).map(|_| Point3::new(c.rng.range(-9.0, 9.0), c.rng.range(-9.0, 9.0), c.rng.range(-9.0, 9.0))).collect();
    let nrm: Option<Vec<UnitVec3>> = if has_n { Some((0..n).map(|_| UnitVec3::new_normalize(gen::unit3(&mut c.rng))).collect()) } else { None };
    let col: Option<Vec<[u8; 3]>> = if has_c { Some((0..n).map(|_| [c.rng.int(0, 255) as u8, c.rng.int(0, 255) as u8, c.rng.int(0, 255) as u8]).collect()) } else { None };
    let t = pick_iso3(c);
    c.family(&format!("cloud/normals={has_n}/colors={has_c}"));
    c.set_case(json!({"points": gen::j3(&pts), "has_normals": has_n, "has_colors": has_c, "iso": gen::jiso3(&t)}));
    let Ok(Ok(mut pc)) = guard(|| PointCloud::try_new(pts.clone(), nrm.clone(), col.clone())) else {
        c.check("PointCloud::try_new", "accepts consistent input", "cloud", false, || "rejected".into());
        return;
    };
    let r = guard(|| pc.transform(&t));
    c.eval();
    if r.is_err() {
        c.check("PointCloud::transform", "no-panic", "cloud", false, || "panic".into());
        return;
    }
    let ok_p = pc.points().len() == n && pc.points().iter().zip(pts.iter()).all(|(a, b)| *a == t * b);
    c.check("PointCloud::transform", "points move by T", "cloud", ok_p, || "points differ from T*p".into());
    let ok_n = match (pc.normals(), &nrm) {
        (Some(a), Some(b)) => a.len() == n && a.iter().zip(b.iter()).all(|(x, y)| (x.into_inner() - t.rotation * y.into_inner()).norm() <= 1e-12),
        (None, None) => true,
        _ => false,
    };
    c.check("PointCloud::transform", "normals only rotate", "cloud", ok_n, || "normals differ from R*n".into());
    let ok_c = match (pc.colors(), &col) {
        (Some(a), Some(b)) => a == b.as_slice(),
        (None, None) => true,
        _ => false,
    };
    c.check("PointCloud::transform", "colours untouched", "cloud", ok_c, || "colours changed".into());
    // inverse restores
    let r = guard(|| pc.transform(&t.inverse()));
    c.eval();
    if r.is_ok() {
        let ok = pc.points().iter().zip(pts.iter()).all(|(a, b)| (a - b).norm() <= 1e-11 * (10.0 + tnorm3(&t)));
        c.check("PointCloud::transform", "T then T^-1 restores", "cloud", ok, || "round trip differs".into());
    }
    if n >= 3 && t != Iso3::identity() {
        c.distinct(&(n, has_n, has_c, pts[0].x.to_bits(), t.translation.vector.x.to_bits()));
    }
}
