//! C18 — Angle normalisation and interval arithmetic are consistent.
//!
//! Oracle: modular-arithmetic model on an ulp-lattice of special angles plus uniform samples; set
//! definitions for scalar intervals.

use crate::gen;
use crate::report::{guard, Ctx};
use crate::rng::{next_down, next_up};
use crate::{Spec, Stream};
use engeom::common::{angle_in_direction, angle_signed_pi, angle_to_2pi, signed_compliment_2pi, Interval};
use engeom::geom2::{directed_angle, signed_angle};
use engeom::{AngleDir, AngleInterval, Vector2};
use serde_json::json;
use std::f64::consts::{PI, TAU};

pub fn spec() -> Spec {
    Spec {
        id: "C18",
        rule: "angles from the lattice {k*pi/2 : |k| <= 8} u {+-1e6, +-1e-300, +-0.0} and one ulp either side of each, plus uniform angles in +-1e6; vector pairs including equal, opposite, perpendicular, tiny and huge norms; \
               (start, extent) pairs with extents in [-3pi,3pi] incl. 0, +-2pi; scalar bound pairs incl. equal and infinite bounds; NaN for the rejection clauses. \
               Non-trivial = any judged case; distinct = hash of the input bits.",
        assumptions: &[
            "same-direction tolerance 1e-9 (fmod is exact; the only error is k*(2pi - fl(2pi)) <= 4e-11 at 1e6)",
            "AngleInterval membership is not judged within 1e-9 of either end (ANGLE_TOL of the library is 1e-12)",
        ],
        streams: vec![
            Stream { name: "normalise", quick: 300_000, thorough: 20_000_000, run: run_norm },
            Stream { name: "directed", quick: 300_000, thorough: 20_000_000, run: run_dir },
            Stream { name: "angle-interval", quick: 300_000, thorough: 20_000_000, run: run_ai },
            Stream { name: "interval", quick: 300_000, thorough: 20_000_000, run: run_iv },
        ],
        required: vec![
            ("angle_signed_pi :: in [-pi,pi]", 100_000),
            ("angle_to_2pi :: same direction", 100_000),
            ("angle_in_direction :: cw + ccw", 100_000),
            ("directed_angle :: rotating the first by it gives the second", 100_000),
            ("AngleInterval::contains", 100_000),
            ("AngleInterval::intersects", 100_000),
            ("Interval::intersection", 100_000),
        ],
        exhaustive_note: None,
    }
}

fn special_angle(c: &mut Ctx) -> (f64, &'static str) {
    if c.rng.chance(0.5) {
        let base = match c.rng.int(0, 5) {
            0 | 1 | 2 => c.rng.iint(-8, 8) as f64 * PI / 2.0,
            3 => c.rng.sign() * 1e6,
            4 => c.rng.sign() * 1e-300,
            _ => c.rng.sign() * 0.0,
        };
        match c.rng.int(0, 2) {
            0 => (base, "lattice"),
            1 => (next_up(base), "lattice+ulp"),
            _ => (next_down(base), "lattice-ulp"),
        }
    } else if c.rng.bool() {
        (c.rng.range(-1e6, 1e6), "uniform-1e6")
    } else {
        (c.rng.range(-10.0, 10.0), "uniform-10")
    }
}

fn same_dir(a: f64, b: f64) -> f64 {
    // chord distance between the directions of a and b
    ((a.cos() - b.cos()).powi(2) + (a.sin() - b.sin()).powi(2)).sqrt()
}

fn run_norm(c: &mut Ctx) {
    let (a, kind) = special_angle(c);
    c.family(&format!("normalise/{kind}"));
    c.set_case(json!({"angle": a}));
    let r = guard(|| (angle_signed_pi(a), angle_to_2pi(a), signed_compliment_2pi(a)));
    c.evals(3);
    let Ok((s, u, comp)) = r else {
        c.check("angle_signed_pi", "no-panic", kind, false, || "panic".into());
        return;
    };
    c.check("angle_signed_pi", "in [-pi,pi]", kind, (-PI..=PI).contains(&s), || format!("{a:e} -> {s:e}"));
    c.close("angle_signed_pi", "same direction", kind, same_dir(s, a), 0.0, 1e-9);
    c.check("angle_to_2pi", "in [0,2pi]", kind, (0.0..=TAU).contains(&u), || format!("{a:e} -> {u:e}"));
    c.close("angle_to_2pi", "same direction", kind, same_dir(u, a), 0.0, 1e-9);
    // idempotent
    c.check("angle_signed_pi", "idempotent", kind, angle_signed_pi(s) == s, || format!("{s:e}"));
    c.check("angle_to_2pi", "idempotent (up to the closed end)", kind, angle_to_2pi(u) == u || (u == TAU && angle_to_2pi(u) == 0.0), || format!("{u:e}"));
    // signed complement: documented as the angle to the same place the other way round
    if a.abs() <= TAU {
        let want = if a >= 0.0 { a - TAU } else { a + TAU };
        c.close("signed_compliment_2pi", "a -+ 2pi", kind, comp, want, 1e-12);
        c.close("signed_compliment_2pi", "same direction", kind, same_dir(comp, a), 0.0, 1e-9);
        if a != 0.0 {
            c.check("signed_compliment_2pi", "opposite sign", kind, comp == 0.0 || (comp > 0.0) != (a > 0.0), || format!("{a} -> {comp}"));
        }
    }
    c.distinct(&a.to_bits());
}

fn special_vec(c: &mut Ctx) -> Vector2 {
    let dir = match c.rng.int(0, 3) {
        0 => {
            let k = c.rng.int(0, 7) as f64 * PI / 4.0;
            Vector2::new(k.cos().round(), k.sin().round())
        }
        _ => gen::unit2(&mut c.rng),
    };
    let mag = match c.rng.int(0, 4) {
        0 => 1e-150,
        1 => 1e150,
        2 => 1.0,
        _ => c.rng.log_range(1e-3, 1e3),
    };
    dir * mag
}

fn run_dir(c: &mut Ctx) {
    // ---- angles
    let (a0, k0) = special_angle(c);
    let (a1, _) = if c.rng.chance(0.15) { (a0 + c.rng.iint(-3, 3) as f64 * TAU, "same") } else { special_angle(c) };
    c.family(&format!("directed/angles/{k0}"));
    c.set_case(json!({"a0": a0, "a1": a1}));
    let r = guard(|| (angle_in_direction(a0, a1, AngleDir::Ccw), angle_in_direction(a0, a1, AngleDir::Cw)));
    c.evals(2);
    if let Ok((ccw, cw)) = r {
        let api = "angle_in_direction";
        c.check(api, "in [0,2pi]", k0, (0.0..=TAU + 1e-15).contains(&ccw) && (0.0..=TAU + 1e-15).contains(&cw), || format!("ccw {ccw:e} cw {cw:e}"));
        c.close(api, "rotating the first counter-clockwise by it gives the second", k0, same_dir(a0 + ccw, a1), 0.0, 2e-9);
        c.close(api, "rotating the first clockwise by it gives the second", k0, same_dir(a0 - cw, a1), 0.0, 2e-9);
        let sum = ccw + cw;
        c.check(api, "cw + ccw is a full turn or both are zero", k0, (sum - TAU).abs() <= 1e-12 || (ccw == 0.0 && cw == 0.0), || format!("ccw {ccw:e} + cw {cw:e} = {sum:e} (a0={a0:e}, a1={a1:e})"));
    } else {
        c.check("angle_in_direction", "no-panic", k0, false, || "panic".into());
    }
    // ---- vectors
    let v1 = special_vec(c);
    let v2 = match c.rng.int(0, 5) {
        0 => v1,
        1 => -v1,
        2 => Vector2::new(-v1.y, v1.x),
        3 => v1 * c.rng.log_range(1e-3, 1e3),
        _ => special_vec(c),
    };
    c.family("directed/vectors");
    c.set_case(json!({"v1": [v1.x, v1.y], "v2": [v2.x, v2.y]}));
    let r = guard(|| (signed_angle(&v1, &v2), signed_angle(&v2, &v1), directed_angle(&v1, &v2, AngleDir::Ccw), directed_angle(&v1, &v2, AngleDir::Cw)));
    c.evals(4);
    let Ok((s12, s21, dccw, dcw)) = r else {
        c.check("signed_angle", "no-panic", "vectors", false, || "panic".into());
        return;
    };
    let rot = |v: &Vector2, a: f64| Vector2::new(a.cos() * v.x - a.sin() * v.y, a.sin() * v.x + a.cos() * v.y);
    let u1 = v1 / v1.norm();
    let u2 = v2 / v2.norm();
    c.check("signed_angle", "in [-pi,pi]", "vectors", (-PI..=PI).contains(&s12), || format!("{s12}"));
    // antisymmetric (except at +-pi, where both orders may report +pi)
    if s12.abs() < PI - 1e-9 {
        c.close("signed_angle", "antisymmetric", "vectors", s21, -s12, 1e-12);
    }
    c.close("signed_angle", "rotating the first by it gives the second", "vectors", (rot(&u1, s12) - u2).norm(), 0.0, 1e-9);
    c.check("directed_angle", "in [0,2pi]", "vectors", (0.0..=TAU).contains(&dccw) && (0.0..=TAU).contains(&dcw), || format!("{dccw} {dcw}"));
    c.close("directed_angle", "rotating the first by it gives the second (ccw)", "vectors", (rot(&u1, dccw) - u2).norm(), 0.0, 1e-9);
    c.close("directed_angle", "rotating the first by it gives the second (cw)", "vectors", (rot(&u1, -dcw) - u2).norm(), 0.0, 1e-9);
    let sum = dccw + dcw;
    c.check("directed_angle", "cw + ccw is a full turn or both are zero", "vectors", (sum - TAU).abs() <= 1e-12 || (dccw == 0.0 && dcw == 0.0), || {
        format!("ccw {dccw:e} + cw {dcw:e} = {sum:e} for v1={v1:?} v2={v2:?}")
    });
    c.distinct(&(a0.to_bits(), a1.to_bits(), v1.x.to_bits(), v2.y.to_bits()));
}

/// offset of x from start going counter-clockwise, in [0,2pi)
fn ccw_off(start: f64, x: f64) -> f64 {
    (x - start).rem_euclid(TAU)
}

/// oracle membership; None inside the guard band around either end
fn member(start: f64, extent: f64, x: f64) -> Option<bool> {
    let (s, e) = if extent < 0.0 { (start + extent, -extent) } else { (start, extent) };
    if e >= TAU {
        return Some(true);
    }
    let off = ccw_off(s, x);
    let g = 1e-9;
    if off < g || (TAU - off) < g || (off - e).abs() < g {
        return None;
    }
    Some(off <= e)
}

fn run_ai(c: &mut Ctx) {
    let start = match c.rng.int(0, 2) {
        0 => c.rng.iint(-8, 8) as f64 * PI / 2.0,
        _ => c.rng.range(-10.0, 10.0),
    };
    let extent = match c.rng.int(0, 4) {
        0 => *c.rng.pick(&[0.0, TAU, -TAU, PI, -PI, 3.0 * PI, -3.0 * PI, PI / 2.0, -PI / 2.0]),
        _ => c.rng.range(-3.0 * PI, 3.0 * PI),
    };
    let class = if extent == 0.0 { "zero-extent" } else if extent.abs() >= TAU { "full-turn" } else if extent < 0.0 { "negative-extent" } else { "positive-extent" };
    c.family(&format!("angle-interval/{class}"));
    let Ok(iv) = guard(|| AngleInterval::new(start, extent)) else {
        c.check("AngleInterval::new", "no-panic", class, false, || "panic".into());
        return;
    };
    c.eval();
    // probes: swept angles, outside angles, plus whole turns
    for k in 0..6 {
        let x = match k {
            0 => start + extent * c.rng.f(),
            1 => start + extent * c.rng.f() + TAU * c.rng.iint(-3, 3) as f64,
            2 => start + extent + c.rng.range(0.0, TAU),
            _ => c.rng.range(-20.0, 20.0),
        };
        let got = iv.contains(x);
        c.eval();
        if k == 0 {
            c.set_case(json!({"start": start, "extent": extent, "probe": x}));
        }
        match member(start, extent, x) {
            Some(w) => {
                c.check("AngleInterval::contains", "exactly the swept angles", class, got == w, || format!("start {start} extent {extent} probe {x}: contains = {got}, swept = {w}"));
            }
            None => c.skip("AngleInterval::contains :: exactly the swept angles"),
        }
    }
    // a negative extent denotes the same set swept backwards
    if extent < 0.0 && extent > -TAU {
        let fwd = AngleInterval::new(start + extent, -extent);
        let x = c.rng.range(-10.0, 10.0);
        if member(start, extent, x).is_some() {
            c.check("AngleInterval::new", "negative extent == same set from the other end", class, fwd.contains(x) == iv.contains(x), || format!("probe {x}"));
        }
    }
    // at_fraction
    let f = c.rng.f();
    let at = iv.at_fraction(f);
    c.close("AngleInterval::at_fraction", "start + f*extent (normalised interval)", class, at, iv.start() + iv.angle() * f, 1e-12);
    if extent.abs() < TAU && extent != 0.0 {
        if let Some(w) = member(start, extent, at) {
            c.check("AngleInterval::at_fraction", "lies in the interval", class, w, || format!("fraction {f}"));
        }
    }
    // intersects <=> they share an angle (oracle: arc overlap on the circle)
    let s2 = c.rng.range(-10.0, 10.0);
    let e2 = match c.rng.int(0, 3) {
        0 => c.rng.range(-0.3, 0.3),
        _ => c.rng.range(-3.0 * PI, 3.0 * PI),
    };
    let other = AngleInterval::new(s2, e2);
    let got = iv.intersects(&other);
    let got_rev = other.intersects(&iv);
    c.evals(2);
    // oracle on normalised arcs [a, a+ea], [b, b+eb], ea,eb in [0,2pi]
    let (a, ea) = (iv.start(), iv.angle());
    let (b, eb) = (other.start(), other.angle());
    let off_b = ccw_off(a, b);
    let off_a = ccw_off(b, a);
    let g = 1e-9;
    let ambiguous = (off_b - ea).abs() < g || (off_a - eb).abs() < g || off_b < g || off_a < g || (TAU - off_b) < g || (TAU - off_a) < g;
    if ambiguous {
        c.skip("AngleInterval::intersects :: iff they share an angle");
    } else {
        let want = ea >= TAU || eb >= TAU || off_b <= ea || off_a <= eb;
        c.check("AngleInterval::intersects", "iff they share an angle", class, got == want, || {
            format!("[{a}, +{ea}] vs [{b}, +{eb}]: intersects = {got}, share an angle = {want}")
        });
        c.check("AngleInterval::intersects", "symmetric", class, got == got_rev, || format!("[{a}, +{ea}] vs [{b}, +{eb}]: {got} vs {got_rev}"));
    }
    c.distinct(&(start.to_bits(), extent.to_bits(), s2.to_bits()));
}

fn bound(c: &mut Ctx) -> f64 {
    match c.rng.int(0, 9) {
        0 => f64::INFINITY,
        1 => f64::NEG_INFINITY,
        2 => 0.0,
        3 => -0.0,
        4 => c.rng.iint(-3, 3) as f64,
        _ => c.rng.range(-10.0, 10.0),
    }
}

fn run_iv(c: &mut Ctx) {
    let (a, b) = (bound(c), if c.rng.chance(0.15) { f64::NAN } else { bound(c) });
    let (a, b) = if c.rng.bool() { (a, b) } else { (b, a) };
    c.family("interval");
    c.set_case(json!({"a": format!("{a}"), "b": format!("{b}")}));
    let nan = a.is_nan() || b.is_nan();
    // construction: NaN rejected (new panics as documented, try_new errs), bounds ordered
    let r_new = guard(|| Interval::new(a, b));
    let r_try = guard(|| Interval::try_new(a, b).ok());
    c.evals(2);
    c.check("Interval::new", "panics iff a bound is NaN (documented)", "construct", r_new.is_err() == nan, || format!("a={a} b={b}"));
    match r_try {
        Ok(t) => {
            c.check("Interval::try_new", "Err iff a bound is NaN", "construct", t.is_none() == nan, || format!("a={a} b={b}"));
            if let Some(t) = t {
                c.check("Interval::try_new", "bounds ordered", "construct", t.min <= t.max && t.min == a.min(b) && t.max == a.max(b), || format!("{t:?} from a={a} b={b}"));
            }
        }
        Err(_) => {
            c.check("Interval::try_new", "no-panic", "construct", false, || "panic".into());
        }
    }
    if nan {
        return;
    }
    let i = r_new.unwrap();
    c.check("Interval::new", "bounds ordered", "construct", i.min <= i.max && i.min == a.min(b) && i.max == a.max(b), || format!("{i:?}"));
    let (c0, c1) = (bound(c), bound(c));
    if c0.is_nan() || c1.is_nan() {
        return;
    }
    let j = if c.rng.chance(0.2) { Interval::new(i.max, c1) } else { Interval::new(c0, c1) };
    let x = if c.rng.chance(0.3) { *c.rng.pick(&[i.min, i.max, j.min, j.max]) } else { bound(c) };
    let class = if i.min == i.max { "degenerate" } else if i.min.is_infinite() || i.max.is_infinite() { "infinite" } else { "finite" };
    c.check("Interval::contains", "min <= x <= max", class, i.contains(x) == (x >= i.min && x <= i.max), || format!("{i:?} {x}"));
    c.check("Interval::contains_interval", "both ends inside", class, i.contains_interval(&j) == (j.min >= i.min && j.max <= i.max), || format!("{i:?} {j:?}"));
    let share = i.min.max(j.min) <= i.max.min(j.max);
    c.check("Interval::overlaps", "iff they share a value", class, i.overlaps(&j) == share, || format!("{i:?} {j:?}"));
    c.check("Interval::overlaps", "symmetric", class, i.overlaps(&j) == j.overlaps(&i), || format!("{i:?} {j:?}"));
    let (ij, ji) = (i.intersection(&j), j.intersection(&i));
    c.evals(6);
    c.check("Interval::intersection", "Some iff they share a value", class, ij.is_some() == share, || format!("{i:?} {j:?} -> {ij:?}"));
    c.check("Interval::intersection", "commutative", class, ij == ji, || format!("{ij:?} vs {ji:?}"));
    if let Some(k) = ij {
        c.check("Interval::intersection", "contained in both operands", class, i.contains_interval(&k) && j.contains_interval(&k), || format!("{i:?} {j:?} -> {k:?}"));
        c.check("Interval::intersection", "is the set intersection", class, k.min == i.min.max(j.min) && k.max == i.max.min(j.max), || format!("{i:?} {j:?} -> {k:?}"));
    }
    let cl = i.clamp(x);
    c.check("Interval::clamp", "nearest value of the interval", class, cl == if x < i.min { i.min } else if x > i.max { i.max } else { x }, || format!("{i:?} clamp {x} = {cl}"));
    if i.min.is_finite() && i.max.is_finite() {
        c.check("Interval::length", "max - min", class, i.length() == i.max - i.min, || "length".into());
    }
    c.distinct(&(a.to_bits(), b.to_bits(), c0.to_bits(), x.to_bits()));
}
