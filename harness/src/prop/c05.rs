//! C05 — Resampling, simplifying and gap filling stay on the curve and cover it all.
//!
//! Oracle: arc-position model P(l) of the source polyline + the harness's de-duplication model;
//! segment-distance bound for simplification; definitional checks for gap filling.

use crate::gen;
use crate::oracle::{dist_seg2, dist_seg3, PolyModel2, PolyModel3, U};
use crate::report::{guard, Ctx};
use crate::{Spec, Stream};
use engeom::common::points::{fill_gaps, ramer_douglas_peucker};
use engeom::{Curve2, Curve3, Point2, Point3, Resample};
use serde_json::json;

pub fn spec() -> Spec {
    Spec {
        id: "C05",
        rule: "2D/3D curves, open and closed, total length 1e-3..1e3 (deliberately on both sides of 1.0), uneven vertex density; counts 2..500, spacings L/500..0.95L, \
               max-spacings L/500..2L; simplification tolerances 1e-4..0.3 of the extent incl. hairpins and closed curves; fill_gaps on raw point lists (length 0,1,2,...) with max 1e-3..10 x mean gap. \
               Non-trivial = source curve with >= 4 vertices and an output with >= 3 vertices; distinct = hash of (curve fingerprint, mode, parameter bits).",
        assumptions: &[
            "a request is in the domain when it yields at least two samples (count >= 2; spacing < L); such requests must succeed (no panic, Ok)",
            "expected output = P(expected arc positions) pushed through the harness's own de-duplication/closure model; compared within eps = 1e-10*(extent+L)+1e3*u*offset+1e-9*L",
            "by-max-spacing is judged on: spans P(0)..P(L), uniform arc spacing, spacing <= max*(1+1e-12) (not on a minimal count)",
            "simplify: distance of a dropped vertex is measured to the simplified polyline (segments), bound e*(1+1e-9)+eps",
        ],
        streams: vec![
            Stream { name: "resample2", quick: 60_000, thorough: 2_000_000, run: run_resample2 },
            Stream { name: "resample3", quick: 40_000, thorough: 1_500_000, run: run_resample3 },
            Stream { name: "simplify", quick: 60_000, thorough: 2_000_000, run: run_simplify },
            Stream { name: "fill-gaps", quick: 60_000, thorough: 2_000_000, run: run_fill },
        ],
        required: vec![
            ("Curve2::resample(ByCount) :: vertices == P(k*L/(n-1))", 2000),
            ("Curve2::resample(BySpacing) :: vertices == P(m + k*s)", 2000),
            ("Curve2::resample(ByMaxSpacing) :: spacing <= max", 2000),
            ("Curve3::resample(ByCount) :: vertices == P(k*L/(n-1))", 1000),
            ("Curve3::resample(ByMaxSpacing) :: spacing <= max", 1000),
            ("Curve2::simplify :: dropped vertices within e of the result", 2000),
            ("Curve3::simplify :: dropped vertices within e of the result", 1000),
            ("fill_gaps :: no gap above max", 3000),
        ],
        exhaustive_note: None,
    }
}

fn len_class(l: f64) -> &'static str {
    if l < 1.0 {
        "L<1"
    } else {
        "L>=1"
    }
}

/// the harness's model of Curve2::from_points (de-duplicate consecutive points within tol, close)
fn model_from_points2(pts: &[Point2], tol: f64, force_closed: bool) -> Vec<Point2> {
    let mut out: Vec<Point2> = Vec::new();
    for p in pts {
        if let Some(l) = out.last() {
            if (p - l).norm() <= tol {
                continue;
            }
        }
        out.push(*p);
    }
    if force_closed && out.len() >= 2 && (out[0] - out[out.len() - 1]).norm() > tol {
        let f = out[0];
        out.push(f);
    }
    out
}

fn model_from_points3(pts: &[Point3], tol: f64) -> Vec<Point3> {
    let mut out: Vec<Point3> = Vec::new();
    for p in pts {
        if let Some(l) = out.last() {
            if (p - l).norm() <= tol {
                continue;
            }
        }
        out.push(*p);
    }
    out
}

/// true when no pair of consecutive points is close enough to tol for the de-duplication outcome
/// to depend on rounding
fn dedup_robust2(pts: &[Point2], tol: f64, eps: f64) -> bool {
    pts.windows(2).all(|w| ((w[1] - w[0]).norm() - tol).abs() > 10.0 * eps + 1e-9 * tol)
}
fn dedup_robust3(pts: &[Point3], tol: f64, eps: f64) -> bool {
    pts.windows(2).all(|w| ((w[1] - w[0]).norm() - tol).abs() > 10.0 * eps + 1e-9 * tol)
}

fn poly_len2(v: &[Point2]) -> f64 {
    v.windows(2).map(|w| (w[1] - w[0]).norm()).sum()
}
fn poly_len3(v: &[Point3]) -> f64 {
    v.windows(2).map(|w| (w[1] - w[0]).norm()).sum()
}

fn dist_poly2(v: &[Point2], p: &Point2) -> f64 {
    if v.len() == 1 {
        return (v[0] - p).norm();
    }
    v.windows(2).map(|w| dist_seg2(&w[0], &w[1], p)).fold(f64::INFINITY, f64::min)
}
fn dist_poly3(v: &[Point3], p: &Point3) -> f64 {
    if v.len() == 1 {
        return (v[0] - p).norm();
    }
    v.windows(2).map(|w| dist_seg3(&w[0], &w[1], p)).fold(f64::INFINITY, f64::min)
}

fn run_resample2(c: &mut Ctx) {
    let case = gen::curve_case2(&mut c.rng, 150);
    let Ok(Ok(curve)) = guard(|| Curve2::from_points(&case.pts, case.tol, case.force_closed)) else { return };
    let m = PolyModel2::new(curve.points());
    let l = curve.length();
    let tol = curve.tol();
    let closed = curve.is_closed();
    let eps = 1e-10 * (m.extent() + l) + 1e3 * U * m.offset() + 1e-9 * l;
    let mode = c.rng.int(0, 2);
    let class = format!("2d/{}/{}", if closed { "closed" } else { "open" }, len_class(l));
    c.family(&format!("resample2/{}/{}", ["by-count", "by-spacing", "by-max-spacing"][mode], len_class(l)));
    match mode {
        0 => {
            let n = if c.rng.chance(0.2) { c.rng.int(2, 4) } else { c.rng.log_range(2.0, 500.0) as usize };
            c.set_case(json!({"curve": case.json(), "mode": "ByCount", "n": n}));
            let api = "Curve2::resample(ByCount)";
            let r = guard(|| curve.resample(Resample::ByCount(n)));
            c.eval();
            let out = match r {
                Err(e) => {
                    c.check(api, "succeeds", &class, false, || format!("{} {} (n={n}, L={l:e})", e.sig(), e.msg));
                    return;
                }
                Ok(Err(e)) => {
                    // only acceptable when every sample collapses within tol
                    let exp: Vec<Point2> = (0..n).map(|k| m.at(k as f64 * l / (n - 1) as f64)).collect();
                    let md = model_from_points2(&exp, tol, closed);
                    c.check(api, "succeeds", &class, md.len() < 2, || format!("Err({e}) for n={n}, L={l:e}"));
                    return;
                }
                Ok(Ok(o)) => o,
            };
            let exp: Vec<Point2> = (0..n).map(|k| m.at(k as f64 * l / (n - 1) as f64)).collect();
            judge_resampled2(c, api, &class, &curve, &m, &out, &exp, "vertices == P(k*L/(n-1))", eps, true, l / (n - 1) as f64);
            c.distinct(&(m.v.len(), m.v[0].x.to_bits(), 0, n));
        }
        1 => {
            let s = if c.rng.chance(0.25) { l / c.rng.int(2, 60) as f64 } else { l / c.rng.log_range(1.06, 500.0) };
            c.set_case(json!({"curve": case.json(), "mode": "BySpacing", "spacing": s}));
            let api = "Curve2::resample(BySpacing)";
            let r = guard(|| curve.resample(Resample::BySpacing(s)));
            c.eval();
            // expected positions (accumulated like any implementation would: k*s < L)
            let mut pos = Vec::new();
            let mut k = 0usize;
            while (k as f64) * s < l {
                pos.push(k as f64 * s);
                k += 1;
            }
            // the count is ambiguous when k*s lands within rounding of L
            let ambiguous = pos.iter().any(|p| (l - p).abs() < 1e-9 * l) || (((k as f64) * s - l).abs() < 1e-9 * l);
            let margin = (l - pos[pos.len() - 1]) / 2.0;
            let exp: Vec<Point2> = pos.iter().map(|p| m.at(p + margin)).collect();
            let out = match r {
                Err(e) => {
                    c.check(api, "succeeds", &class, false, || format!("{} {} (spacing={s:e}, L={l:e})", e.sig(), e.msg));
                    return;
                }
                Ok(Err(e)) => {
                    let md = model_from_points2(&exp, tol, closed);
                    c.check(api, "succeeds", &class, md.len() < 2, || format!("Err({e}) for spacing={s:e}, L={l:e}"));
                    return;
                }
                Ok(Ok(o)) => o,
            };
            if ambiguous {
                // L is (within rounding) a multiple of the spacing: whether the sample that lands on L
                // exists is decided by rounding; either reading is accepted, anything else is not
                let keep: Vec<f64> = pos.iter().cloned().filter(|p| (l - p).abs() >= 1e-9 * l).collect();
                let mut alts: Vec<Vec<Point2>> = Vec::new();
                let mg = (l - keep[keep.len() - 1]) / 2.0;
                alts.push(keep.iter().map(|p| m.at(p + mg)).collect());
                let mut with_end = keep.clone();
                with_end.push(l);
                alts.push(with_end.iter().map(|p| m.at(*p)).collect());
                let ov = out.points().to_vec();
                let mut decided = true;
                let mut ok = false;
                for e in &alts {
                    if !dedup_robust2(e, tol, eps) {
                        decided = false;
                        continue;
                    }
                    let md = model_from_points2(e, tol, closed);
                    if md.len() == ov.len() && md.iter().zip(ov.iter()).all(|(a, b)| (a - b).norm() <= eps) {
                        ok = true;
                    }
                }
                if ok || decided {
                    c.check(api, "vertices == P(m + k*s)", &class, ok, || {
                        format!("L={l:e} is a multiple of the spacing {s:e}; the output ({} vertices) is neither the centred sampling without the end sample nor the one with it", ov.len())
                    });
                } else {
                    c.skip("Curve2::resample(BySpacing) :: vertices == P(m + k*s)");
                }
                return;
            }
            c.check(api, "margins equal and below one spacing", &class, margin < s, || format!("margin {margin:e} spacing {s:e}"));
            judge_resampled2(c, api, &class, &curve, &m, &out, &exp, "vertices == P(m + k*s)", eps, false, s);
            c.distinct(&(m.v.len(), m.v[0].x.to_bits(), 1, s.to_bits()));
        }
        _ => {
            let ms = l / c.rng.log_range(0.5, 500.0);
            c.set_case(json!({"curve": case.json(), "mode": "ByMaxSpacing", "max_spacing": ms}));
            let api = "Curve2::resample(ByMaxSpacing)";
            // domain: the samples must be representable - spacing well above the de-duplication
            // tolerance, and a closed curve needs at least three distinct samples
            if ms < 4.0 * tol || (closed && ms >= 0.45 * l) {
                c.skip("Curve2::resample(ByMaxSpacing) :: spacing <= max");
                return;
            }
            let r = guard(|| curve.resample(Resample::ByMaxSpacing(ms)));
            c.eval();
            let out = match r {
                Err(e) => {
                    c.check(api, "succeeds", &class, false, || format!("{} {} (max={ms:e}, L={l:e})", e.sig(), e.msg));
                    return;
                }
                Ok(Err(e)) => {
                    c.check(api, "succeeds", &class, l <= 2.0 * tol, || format!("Err({e}) for max={ms:e}, L={l:e}"));
                    return;
                }
                Ok(Ok(o)) => o,
            };
            // Which uniform sampling did the library use?  Try the minimal count (and its
            // neighbours), pushed through the de-duplication model; otherwise take the output count
            // at face value.  Judged on: uniform, spanning, spacing <= max (not on a minimal count).
            let ov = out.points().to_vec();
            let n0 = (l / ms).ceil() as usize + 1;
            let mut found: Option<(usize, Vec<Point2>)> = None;
            let mut ambiguous = false;
            for nn in [n0, n0 + 1, n0.saturating_sub(1), ov.len()] {
                if nn < 2 {
                    continue;
                }
                let exp: Vec<Point2> = (0..nn).map(|k| m.at(k as f64 * l / (nn - 1) as f64)).collect();
                if !dedup_robust2(&exp, tol, eps) {
                    ambiguous = true;
                    continue;
                }
                let md = model_from_points2(&exp, tol, closed);
                if md.len() == ov.len() && md.iter().zip(ov.iter()).all(|(a, b)| (a - b).norm() <= eps) {
                    found = Some((nn, exp));
                    break;
                }
            }
            let Some((nn, exp)) = found else {
                // not recognisable as a uniform sampling at any candidate count
                let nn = ov.len();
                let exp: Vec<Point2> = (0..nn).map(|k| m.at(k as f64 * l / (nn - 1) as f64)).collect();
                if !ambiguous && model_from_points2(&exp, tol, closed).len() == nn && dedup_robust2(&exp, tol, eps) {
                    judge_resampled2(c, api, &class, &curve, &m, &out, &exp, "uniform spacing from P(0) to P(L)", eps, true, l / (nn - 1) as f64);
                } else {
                    c.skip("Curve2::resample(ByMaxSpacing) :: spacing <= max");
                }
                return;
            };
            let sp = l / (nn - 1) as f64;
            c.check(api, "spacing <= max", &class, sp <= ms * (1.0 + 1e-12), || {
                format!("{nn} uniform samples over L={l:e}: arc spacing {sp:e} > requested max {ms:e}")
            });
            judge_resampled2(c, api, &class, &curve, &m, &out, &exp, "uniform spacing from P(0) to P(L)", eps, true, sp);
            c.distinct(&(m.v.len(), m.v[0].x.to_bits(), 2, ms.to_bits()));
        }
    }
}

#[allow(clippy::too_many_arguments)]
fn judge_resampled2(
    c: &mut Ctx,
    api: &str,
    class: &str,
    src: &Curve2,
    m: &PolyModel2,
    out: &Curve2,
    exp: &[Point2],
    clause: &str,
    eps: f64,
    spanning: bool,
    arc_spacing: f64,
) {
    let tol = src.tol();
    let closed = src.is_closed();
    let ov = out.points().to_vec();
    // every output vertex lies on the original
    let worst = ov.iter().map(|p| m.dist(p)).fold(0.0, f64::max);
    c.close(api, "output vertices on the original", class, worst, 0.0, eps);
    c.check(api, "closedness kept", class, out.is_closed() == closed, || format!("source closed={closed}, output closed={}", out.is_closed()));
    c.check(api, "tol kept", class, out.tol() == tol, || format!("{} vs {tol}", out.tol()));
    if dedup_robust2(exp, tol, eps) {
        let md = model_from_points2(exp, tol, closed);
        let same = md.len() == ov.len() && md.iter().zip(ov.iter()).all(|(a, b)| (a - b).norm() <= eps);
        c.check(api, clause, class, same, || {
            let first_bad = md.iter().zip(ov.iter()).position(|(a, b)| (a - b).norm() > eps);
            format!(
                "expected {} vertices, got {}; first mismatch at {:?}; L={:e}; output length {:e}",
                md.len(),
                ov.len(),
                first_bad,
                src.length(),
                out.length()
            )
        });
    } else {
        c.skip(&format!("{api} :: {clause}"));
    }
    // samples closer together than the curve tolerance are merged by construction; the explicit
    // end-point clauses are judged when the request is representable
    if spanning && arc_spacing >= 4.0 * tol {
        c.close(api, "first == P(0)", class, (ov[0] - m.v[0]).norm(), 0.0, eps);
        let last_src = m.v[m.v.len() - 1];
        // closed outputs end on their first vertex (within tol)
        // ... and so does an open output whose last sample lands within tol of the one before it
        // in space although they are a full spacing apart along the curve (a curve that comes back
        // to its own end point): the construction merges the two
        let merged_end = exp.len() >= 2 && (exp[exp.len() - 1] - exp[exp.len() - 2]).norm() <= tol * (1.0 + 1e-9) + eps;
        let lt = if closed || merged_end { tol + eps } else { eps };
        c.close(api, "last == P(L)", class, (ov[ov.len() - 1] - last_src).norm(), 0.0, lt);
        // chord error only: nothing of the original is farther than half a sample spacing away
        let worst = m.v.iter().map(|p| dist_poly2(&ov, p)).fold(0.0, f64::max);
        c.close(api, "original vertices within spacing/2 of the output", class, worst, 0.0, arc_spacing / 2.0 + tol + eps);
    }
    c.check(api, "length <= original length", class, poly_len2(&ov) <= src.length() + eps + if closed { arc_spacing + tol } else { 0.0 }, || {
        // (closed: the output closes on its first vertex; a source that is closed only within its
        // tolerance has a seam of up to `tol` that its own length does not count)
        format!("output {:e} > source {:e}", poly_len2(&ov), src.length())
    });
}

fn run_resample3(c: &mut Ctx) {
    let case = gen::curve_case3(&mut c.rng, 120);
    let Ok(Ok(curve)) = guard(|| Curve3::from_points(&case.pts, case.tol)) else { return };
    let m = PolyModel3::new(curve.points());
    let l = curve.length();
    let tol = curve.tol();
    let eps = 1e-10 * (m.extent() + l) + 1e3 * U * m.offset() + 1e-9 * l;
    let mode = c.rng.int(0, 2);
    let class = format!("3d/{}", len_class(l));
    c.family(&format!("resample3/{}/{}", ["by-count", "by-spacing", "by-max-spacing"][mode], len_class(l)));
    let (api, clause, exp, out, spanning, sp): (&str, &str, Vec<Point3>, Curve3, bool, f64) = match mode {
        0 => {
            let n = if c.rng.chance(0.2) { c.rng.int(2, 4) } else { c.rng.log_range(2.0, 500.0) as usize };
            c.set_case(json!({"curve": case.json(), "mode": "ByCount", "n": n}));
            let api = "Curve3::resample(ByCount)";
            let exp: Vec<Point3> = (0..n).map(|k| m.at(k as f64 * l / (n - 1) as f64)).collect();
            let r = guard(|| curve.resample(Resample::ByCount(n)));
            c.eval();
            match r {
                Err(e) => {
                    let md = model_from_points3(&exp, tol);
                    c.check(api, "succeeds", &class, md.len() < 2, || format!("{} {} (n={n}, L={l:e})", e.sig(), e.msg));
                    return;
                }
                Ok(o) => (api, "vertices == P(k*L/(n-1))", exp, o, true, l / (n - 1) as f64),
            }
        }
        1 => {
            let s = if c.rng.chance(0.25) { l / c.rng.int(2, 60) as f64 } else { l / c.rng.log_range(1.06, 500.0) };
            c.set_case(json!({"curve": case.json(), "mode": "BySpacing", "spacing": s}));
            let api = "Curve3::resample(BySpacing)";
            let mut pos = Vec::new();
            let mut k = 0usize;
            while (k as f64) * s < l {
                pos.push(k as f64 * s);
                k += 1;
            }
            let ambiguous = pos.iter().any(|p| (l - p).abs() < 1e-9 * l) || (((k as f64) * s - l).abs() < 1e-9 * l);
            let margin = (l - pos[pos.len() - 1]) / 2.0;
            let exp: Vec<Point3> = pos.iter().map(|p| m.at(p + margin)).collect();
            let r = guard(|| curve.resample(Resample::BySpacing(s)));
            c.eval();
            match r {
                Err(e) => {
                    let md = model_from_points3(&exp, tol);
                    c.check(api, "succeeds", &class, md.len() < 2, || format!("{} {} (spacing={s:e}, L={l:e})", e.sig(), e.msg));
                    return;
                }
                Ok(o) => {
                    if ambiguous {
                        let keep: Vec<f64> = pos.iter().cloned().filter(|p| (l - p).abs() >= 1e-9 * l).collect();
                        let mut alts: Vec<Vec<Point3>> = Vec::new();
                        let mg = (l - keep[keep.len() - 1]) / 2.0;
                        alts.push(keep.iter().map(|p| m.at(p + mg)).collect());
                        let mut with_end = keep.clone();
                        with_end.push(l);
                        alts.push(with_end.iter().map(|p| m.at(*p)).collect());
                        let ov = o.points().to_vec();
                        let mut decided = true;
                        let mut ok = false;
                        for e in &alts {
                            if !dedup_robust3(e, tol, eps) {
                                decided = false;
                                continue;
                            }
                            let md = model_from_points3(e, tol);
                            if md.len() == ov.len() && md.iter().zip(ov.iter()).all(|(a, b)| (a - b).norm() <= eps) {
                                ok = true;
                            }
                        }
                        if ok || decided {
                            c.check(api, "vertices == P(m + k*s)", &class, ok, || {
                                format!("L={l:e} is a multiple of the spacing {s:e}; the output ({} vertices) is neither the centred sampling without the end sample nor the one with it", ov.len())
                            });
                        } else {
                            c.skip("Curve3::resample(BySpacing) :: vertices == P(m + k*s)");
                        }
                        return;
                    }
                    (api, "vertices == P(m + k*s)", exp, o, false, s)
                }
            }
        }
        _ => {
            let ms = l / c.rng.log_range(0.5, 500.0);
            c.set_case(json!({"curve": case.json(), "mode": "ByMaxSpacing", "max_spacing": ms}));
            let api = "Curve3::resample(ByMaxSpacing)";
            let loopy = (m.v[0] - m.v[m.v.len() - 1]).norm() <= 2.0 * tol;
            if ms < 4.0 * tol || (loopy && ms >= 0.45 * l) {
                c.skip("Curve3::resample(ByMaxSpacing) :: spacing <= max");
                return;
            }
            let r = guard(|| curve.resample(Resample::ByMaxSpacing(ms)));
            c.eval();
            match r {
                Err(e) => {
                    c.check(api, "succeeds", &class, l <= 2.0 * tol, || format!("{} {} (max={ms:e}, L={l:e})", e.sig(), e.msg));
                    return;
                }
                Ok(o) => {
                    let ov = o.points().to_vec();
                    if ov.len() < 2 {
                        c.check(api, "at least two vertices", &class, false, || format!("{} vertices", ov.len()));
                        return;
                    }
                    let n0 = (l / ms).ceil() as usize + 1;
                    let mut found: Option<(usize, Vec<Point3>)> = None;
                    let mut ambiguous = false;
                    for nn in [n0, n0 + 1, n0.saturating_sub(1), ov.len()] {
                        if nn < 2 {
                            continue;
                        }
                        let exp: Vec<Point3> = (0..nn).map(|k| m.at(k as f64 * l / (nn - 1) as f64)).collect();
                        if !dedup_robust3(&exp, tol, eps) {
                            if c.verbose {
                                let bad: Vec<(usize, f64)> = exp.windows(2).enumerate().map(|(i, w)| (i, (w[1] - w[0]).norm())).filter(|(_, d)| (d - tol).abs() <= 10.0 * eps + 1e-9 * tol).collect();
                                println!("  candidate count {nn}: de-duplication outcome not robust at {bad:?} (tol {tol:e})");
                            }
                            ambiguous = true;
                            continue;
                        }
                        let md = model_from_points3(&exp, tol);
                        if c.verbose {
                            let worst = md.iter().zip(ov.iter()).map(|(a, b)| (a - b).norm()).fold(0.0, f64::max);
                            println!("  candidate count {nn}: model {} vertices, output {}, worst mismatch {worst:e} (eps {eps:e})", md.len(), ov.len());
                        }
                        if md.len() == ov.len() && md.iter().zip(ov.iter()).all(|(a, b)| (a - b).norm() <= eps) {
                            found = Some((nn, exp));
                            break;
                        }
                    }
                    let (nn, exp) = match found {
                        Some(x) => x,
                        None => {
                            let nn = ov.len();
                            let exp: Vec<Point3> = (0..nn).map(|k| m.at(k as f64 * l / (nn - 1) as f64)).collect();
                            if ambiguous || model_from_points3(&exp, tol).len() != nn || !dedup_robust3(&exp, tol, eps) {
                                c.skip("Curve3::resample(ByMaxSpacing) :: spacing <= max");
                                return;
                            }
                            (nn, exp)
                        }
                    };
                    let sp = l / (nn - 1) as f64;
                    c.check(api, "spacing <= max", &class, sp <= ms * (1.0 + 1e-12), || {
                        format!("{nn} uniform samples over L={l:e}: arc spacing {sp:e} > requested max {ms:e}")
                    });
                    (api, "uniform spacing from P(0) to P(L)", exp, o, true, sp)
                }
            }
        }
    };
    let ov = out.points().to_vec();
    let worst = ov.iter().map(|p| m.dist(p)).fold(0.0, f64::max);
    c.close(api, "output vertices on the original", &class, worst, 0.0, eps);
    c.check(api, "tol kept", &class, out.tol() == tol, || format!("{} vs {tol}", out.tol()));
    if dedup_robust3(&exp, tol, eps) {
        let md = model_from_points3(&exp, tol);
        let same = md.len() == ov.len() && md.iter().zip(ov.iter()).all(|(a, b)| (a - b).norm() <= eps);
        c.check(api, clause, &class, same, || format!("expected {} vertices, got {}; L={l:e}; output length {:e}", md.len(), ov.len(), out.length()));
    } else {
        c.skip(&format!("{api} :: {clause}"));
    }
    if spanning && sp >= 4.0 * tol {
        c.close(api, "first == P(0)", &class, (ov[0] - m.v[0]).norm(), 0.0, eps);
        c.close(api, "last == P(L)", &class, (ov[ov.len() - 1] - m.v[m.v.len() - 1]).norm(), 0.0, tol + eps);
        let worst = m.v.iter().map(|p| dist_poly3(&ov, p)).fold(0.0, f64::max);
        c.close(api, "original vertices within spacing/2 of the output", &class, worst, 0.0, sp / 2.0 + tol + eps);
    }
    c.check(api, "length <= original length", &class, poly_len3(&ov) <= l + eps, || format!("output {:e} > source {l:e}", poly_len3(&ov)));
    c.distinct(&(m.v.len(), m.v[0].x.to_bits(), mode, ov.len()));
}

fn run_simplify(c: &mut Ctx) {
    if c.rng.chance(0.6) {
        // ---- Curve2
        let case = gen::curve_case2(&mut c.rng, 150);
        let Ok(Ok(curve)) = guard(|| Curve2::from_points(&case.pts, case.tol, case.force_closed)) else { return };
        let m = PolyModel2::new(curve.points());
        let closed = curve.is_closed();
        let e = m.extent() * c.rng.log_range(1e-4, 0.3);
        if e <= 4.0 * curve.tol() {
            return;
        }
        c.family(&format!("simplify2/{}/{}", case.fam, if closed { "closed" } else { "open" }));
        c.set_case(json!({"curve": case.json(), "e": e}));
        let class = format!("2d/{}", if closed { "closed" } else { "open" });
        let api = "Curve2::simplify";
        let eps = 1e-10 * (m.extent() + curve.length()) + 1e3 * U * m.offset();
        let r = guard(|| curve.simplify(e));
        c.eval();
        let out = match r {
            Err(p) => {
                c.check(api, "succeeds", &class, false, || format!("{} {} (e={e:e}, {} vertices)", p.sig(), p.msg, m.v.len()));
                return;
            }
            Ok(o) => o,
        };
        let ov = out.points().to_vec();
        // exact subsequence
        let mut i = 0;
        let mut sub = true;
        for q in &ov {
            while i < m.v.len() && m.v[i] != *q {
                i += 1;
            }
            if i == m.v.len() {
                sub = false;
                break;
            }
            i += 1;
        }
        c.check(api, "output is a subsequence of the input vertices", &class, sub, || "not a subsequence".into());
        c.check(api, "first and last vertex kept", &class, ov[0] == m.v[0] && ov[ov.len() - 1] == m.v[m.v.len() - 1], || "end point lost".into());
        c.check(api, "closedness kept", &class, out.is_closed() == closed, || format!("{} vs {closed}", out.is_closed()));
        let worst = m.v.iter().map(|p| dist_poly2(&ov, p)).fold(0.0, f64::max);
        c.close(api, "dropped vertices within e of the result", &class, worst, 0.0, e * (1.0 + 1e-9) + eps);
        if m.v.len() >= 4 && ov.len() >= 3 {
            c.distinct(&(m.v.len(), m.v[0].x.to_bits(), e.to_bits()));
        }
        // raw-point variant
        let r = guard(|| ramer_douglas_peucker(&m.v, e));
        c.eval();
        match r {
            Err(p) => {
                c.check("ramer_douglas_peucker", "succeeds", &class, false, || format!("{} {}", p.sig(), p.msg));
            }
            Ok(rv) => {
                if rv.len() >= 2 {
                    let worst = m.v.iter().map(|p| dist_poly2(&rv, p)).fold(0.0, f64::max);
                    c.close("ramer_douglas_peucker", "dropped points within e of the result", &class, worst, 0.0, e * (1.0 + 1e-9) + eps);
                    c.check("ramer_douglas_peucker", "first and last kept", &class, rv[0] == m.v[0] && rv[rv.len() - 1] == m.v[m.v.len() - 1], || "end point lost".into());
                } else {
                    c.check("ramer_douglas_peucker", "at least both end points", &class, false, || format!("{} points returned", rv.len()));
                }
            }
        }
    } else {
        // ---- Curve3
        let case = gen::curve_case3(&mut c.rng, 120);
        let Ok(Ok(curve)) = guard(|| Curve3::from_points(&case.pts, case.tol)) else { return };
        let m = PolyModel3::new(curve.points());
        let loopy = (m.v[0] - m.v[m.v.len() - 1]).norm() <= curve.tol();
        let e = m.extent() * c.rng.log_range(1e-4, 0.3);
        if e <= 4.0 * curve.tol() {
            return;
        }
        c.family(&format!("simplify3/{}/{}", case.fam, if loopy { "closed" } else { "open" }));
        c.set_case(json!({"curve": case.json(), "e": e}));
        let class = format!("3d/{}", if loopy { "closed" } else { "open" });
        let api = "Curve3::simplify";
        let eps = 1e-10 * (m.extent() + curve.length()) + 1e3 * U * m.offset();
        let r = guard(|| curve.simplify(e));
        c.eval();
        let out = match r {
            Err(p) => {
                c.check(api, "succeeds", &class, false, || format!("{} {} (e={e:e}, {} vertices)", p.sig(), p.msg, m.v.len()));
                return;
            }
            Ok(o) => o,
        };
        let ov = out.points().to_vec();
        let mut i = 0;
        let mut sub = true;
        for q in &ov {
            while i < m.v.len() && m.v[i] != *q {
                i += 1;
            }
            if i == m.v.len() {
                sub = false;
                break;
            }
            i += 1;
        }
        c.check(api, "output is a subsequence of the input vertices", &class, sub, || "not a subsequence".into());
        c.check(api, "first and last vertex kept", &class, ov[0] == m.v[0] && ov[ov.len() - 1] == m.v[m.v.len() - 1], || "end point lost".into());
        let worst = m.v.iter().map(|p| dist_poly3(&ov, p)).fold(0.0, f64::max);
        c.close(api, "dropped vertices within e of the result", &class, worst, 0.0, e * (1.0 + 1e-9) + eps);
        if out.tol() != curve.tol() {
            c.note("Curve3::simplify changed the curve tolerance (observed, not judged)");
        }
        if m.v.len() >= 4 && ov.len() >= 3 {
            c.distinct(&(m.v.len(), m.v[0].x.to_bits(), e.to_bits(), 3));
        }
    }
}

fn run_fill(c: &mut Ctx) {
    let n = match c.rng.int(0, 9) {
        0 => 0,
        1 => 1,
        2 => 2,
        _ => c.rng.int(3, 60),
    };
    let scale = c.rng.log_range(1e-3, 1e3);
    let three_d = c.rng.bool();
    c.family(&format!("fill-gaps/{}", if three_d { "3d" } else { "2d" }));
    if three_d {
        let mut p = Point3::new(0.0, 0.0, 0.0);
        let mut pts = Vec::new();
        for _ in 0..n {
            pts.push(p);
            let step = scale * c.rng.log_range(1e-2, 1.0);
            p += gen::unit3(&mut c.rng) * step;
        }
        let mean_gap = if n >= 2 { poly_len3(&pts) / (n - 1) as f64 } else { scale };
        let max = mean_gap * c.rng.log_range(1e-2, 10.0);
        c.set_case(json!({"points": gen::j3(&pts), "max": max}));
        let r = guard(|| fill_gaps(&pts, max));
        c.eval();
        let out = match r {
            Err(e) => {
                c.check("fill_gaps", "succeeds", "3d", false, || format!("{} {}", e.sig(), e.msg));
                return;
            }
            Ok(o) => o,
        };
        // originals kept in order; inserted points between their neighbours, evenly spaced
        let mut j = 0usize;
        let mut ok_order = true;
        let mut ok_on = true;
        let mut ok_even = true;
        let mut worst_gap = 0.0f64;
        for i in 0..n {
            // advance to the original i
            let start = j;
            while j < out.len() && out[j] != pts[i] {
                j += 1;
            }
            if j == out.len() {
                ok_order = false;
                break;
            }
            if i > 0 {
                let (a, b) = (pts[i - 1], pts[i]);
                let k = j - start; // inserted points
                for (t, q) in out[start..j].iter().enumerate() {
                    let f = (t + 1) as f64 / (k + 1) as f64;
                    let want = a + (b - a) * f;
                    if (want - q).norm() > 1e-9 * (b - a).norm() + 1e3 * U * a.coords.norm() {
                        ok_even = false;
                    }
                    if dist_seg3(&a, &b, q) > 1e-9 * (b - a).norm() + 1e3 * U * a.coords.norm() {
                        ok_on = false;
                    }
                }
            } else if j != 0 {
                ok_order = false;
            }
            j += 1;
        }
        if n > 0 && j != out.len() {
            ok_order = false;
        }
        for w in out.windows(2) {
            worst_gap = worst_gap.max((w[1] - w[0]).norm());
        }
        c.check("fill_gaps", "originals kept in order", "3d", ok_order && (n > 0 || out.is_empty()), || format!("{} in, {} out", n, out.len()));
        c.check("fill_gaps", "inserted points on the segment", "3d", ok_on, || "off segment".into());
        c.check("fill_gaps", "inserted points evenly spaced", "3d", ok_even, || "uneven".into());
        c.check("fill_gaps", "no gap above max", "3d", worst_gap <= max * (1.0 + 1e-12), || format!("gap {worst_gap:e} > max {max:e}"));
        c.distinct(&(n, max.to_bits(), 3));
    } else {
        let mut p = Point2::new(0.0, 0.0);
        let mut pts = Vec::new();
        for _ in 0..n {
            pts.push(p);
            let step = scale * c.rng.log_range(1e-2, 1.0);
            p += gen::unit2(&mut c.rng) * step;
        }
        let mean_gap = if n >= 2 { poly_len2(&pts) / (n - 1) as f64 } else { scale };
        let max = mean_gap * c.rng.log_range(1e-2, 10.0);
        c.set_case(json!({"points": gen::j2(&pts), "max": max}));
        let r = guard(|| fill_gaps(&pts, max));
        c.eval();
        let out = match r {
            Err(e) => {
                c.check("fill_gaps", "succeeds", "2d", false, || format!("{} {}", e.sig(), e.msg));
                return;
            }
            Ok(o) => o,
        };
        let mut j = 0usize;
        let mut ok_order = true;
        let mut ok_on = true;
        let mut ok_even = true;
        let mut worst_gap = 0.0f64;
        for i in 0..n {
            let start = j;
            while j < out.len() && out[j] != pts[i] {
                j += 1;
            }
            if j == out.len() {
                ok_order = false;
                break;
            }
            if i > 0 {
                let (a, b) = (pts[i - 1], pts[i]);
                let k = j - start;
                for (t, q) in out[start..j].iter().enumerate() {
                    let f = (t + 1) as f64 / (k + 1) as f64;
                    let want = a + (b - a) * f;
                    if (want - q).norm() > 1e-9 * (b - a).norm() + 1e3 * U * a.coords.norm() {
                        ok_even = false;
                    }
                    if dist_seg2(&a, &b, q) > 1e-9 * (b - a).norm() + 1e3 * U * a.coords.norm() {
                        ok_on = false;
                    }
                }
            } else if j != 0 {
                ok_order = false;
            }
            j += 1;
        }
        if n > 0 && j != out.len() {
            ok_order = false;
        }
        for w in out.windows(2) {
            worst_gap = worst_gap.max((w[1] - w[0]).norm());
        }
        c.check("fill_gaps", "originals kept in order", "2d", ok_order && (n > 0 || out.is_empty()), || format!("{} in, {} out", n, out.len()));
        c.check("fill_gaps", "inserted points on the segment", "2d", ok_on, || "off segment".into());
        c.check("fill_gaps", "inserted points evenly spaced", "2d", ok_even, || "uneven".into());
        c.check("fill_gaps", "no gap above max", "2d", worst_gap <= max * (1.0 + 1e-12), || format!("gap {worst_gap:e} > max {max:e}"));
        c.distinct(&(n, max.to_bits(), 2));
    }
}
