//! C12 — Mesh connectivity results are exact partitions and always terminate.
//!
//! Oracles: multiset counting and union-find written in the harness; exhaustive enumeration of
//! small face lists; repetition across hash-iteration orders; hooked step bounds for termination.

use crate::gen::{self, RawMesh};
use crate::report::{guard_fuel, Ctx};
use crate::{Spec, Stream};
use engeom::common::indices::chained_indices;
use engeom::raster3::clusters_from_sparse;
use engeom::{Mesh, Point3, Vector3};
use serde_json::json;
use std::collections::{BTreeMap, BTreeSet, HashMap, HashSet};

// number of oriented faces over v labelled vertices: 2 * C(v,3)
const FACES5: usize = 20;
const FACES6: usize = 40;

fn binom(n: usize, k: usize) -> u64 {
    if k > n {
        return 0;
    }
    let mut r = 1u64;
    for i in 0..k {
        r = r * (n - i) as u64 / (i + 1) as u64;
    }
    r
}

fn total5() -> u64 {
    (1..=5).map(|k| binom(FACES5, k)).sum()
}
fn total6() -> u64 {
    (1..=4).map(|k| binom(FACES6, k)).sum()
}

pub fn spec() -> Spec {
    Spec {
        id: "C12",
        rule: "exhaustive: every set of <= 5 oriented faces over 5 labelled vertices and of <= 4 over 6 (all small topologies: disks, fans, bow-ties, flipped neighbours, Moebius strips, closed tetrahedra, non-manifold fins; both tiers enumerate the whole space); \
               random larger meshes: grid disks with holes, tubes, closed surfaces, multi-component unions, random face flips, vertex-only contacts, labels permuted; voxel sets (blobs, diagonal-only chains, sparse, negative coordinates); index-pair lists (paths, cycles, branching). \
               Each input is evaluated several times so that different hash-iteration orders occur; termination is judged with hooked step counters (bound 8(F+E+V+1)^2). \
               Non-trivial = mesh with >= 2 faces sharing something, voxel set with >= 2 voxels, pair list with >= 2 pairs; distinct = hash of the input.",
        assumptions: &[
            "closed vertex cycles are judged as undirected cycles: the multiset of consecutive-vertex pairs over all loops must equal the multiset of edges used by exactly one face",
            "hash-order independence: canonical (set) forms of R repeated evaluations must coincide; the number of distinct iteration orders of a probe set actually observed is reported",
            "termination = hooked loops stay within 8(F+E+V+1)^2 steps (4(n+1)^2 for index chaining); uses hooks H1/H4",
        ],
        streams: vec![
            Stream { name: "small5", quick: total5(), thorough: total5(), run: run_small5 },
            Stream { name: "small6", quick: total6(), thorough: total6(), run: run_small6 },
            Stream { name: "random-mesh", quick: 20_000, thorough: 600_000, run: run_random },
            Stream { name: "voxels", quick: 20_000, thorough: 500_000, run: run_voxels },
            Stream { name: "chains", quick: 300_000, thorough: 10_000_000, run: run_chains },
            Stream { name: "generators", quick: 20_000, thorough: 500_000, run: run_generators },
        ],
        required: vec![
            ("Mesh::calc_edges :: Err iff an edge is shared by more than two faces", 10_000),
            ("Mesh::calc_edges :: boundary loops contain every boundary edge exactly once", 5000),
            ("Mesh::get_patches :: same patch iff connected through shared edges", 10_000),
            ("clusters_from_sparse", 3000),
            ("chained_indices", 30_000),
            ("Mesh::create_cylinder", 500),
            ("Mesh::create_box", 500),
        ],
        exhaustive_note: Some("every set of <= 5 oriented faces over 5 labelled vertices (21 699 meshes) and every set of <= 4 oriented faces over 6 labelled vertices (102 090 meshes) is enumerated (both tiers)"),
    }
}

fn oriented_faces(nv: usize) -> Vec<[u32; 3]> {
    let mut f = Vec::new();
    for i in 0..nv {
        for j in i + 1..nv {
            for k in j + 1..nv {
                f.push([i as u32, j as u32, k as u32]);
                f.push([i as u32, k as u32, j as u32]);
            }
        }
    }
    f
}

/// the r-th (lexicographic) k-subset of 0..n
fn unrank(n: usize, k: usize, mut r: u64) -> Vec<usize> {
    let mut out = Vec::with_capacity(k);
    let mut x = 0usize;
    for i in 0..k {
        loop {
            let cnt = binom(n - x - 1, k - i - 1);
            if r < cnt {
                out.push(x);
                x += 1;
                break;
            }
            r -= cnt;
            x += 1;
        }
    }
    out
}

fn small_faces(nv: usize, kmax: usize, mut g: u64) -> Vec<[u32; 3]> {
    let all = oriented_faces(nv);
    let n = all.len();
    for k in 1..=kmax {
        let cnt = binom(n, k);
        if g < cnt {
            return unrank(n, k, g).into_iter().map(|i| all[i]).collect();
        }
        g -= cnt;
    }
    unreachable!()
}

fn generic_vertices(nv: usize) -> Vec<Point3> {
    // fixed generic coordinates (no three collinear, all distances distinct)
    let base = [[0.0, 0.0, 0.0], [1.0, 0.13, 0.07], [0.31, 1.1, -0.2], [0.45, 0.38, 0.95], [-0.7, 0.52, 0.41], [0.2, -0.9, 0.6], [1.3, 1.2, 0.8]];
    base[..nv].iter().map(|p| Point3::new(p[0], p[1], p[2])).collect()
}

fn run_small5(c: &mut Ctx) {
    let tot = total5();
    let g = c.index % tot;
    let faces = small_faces(5, 5, g);
    c.family(&format!("small5/{}-faces", faces.len()));
    judge_mesh(c, &generic_vertices(5), &faces, "small");
}

fn run_small6(c: &mut Ctx) {
    let tot = total6();
    let g = c.index % tot;
    let faces = small_faces(6, 4, g);
    c.family(&format!("small6/{}-faces", faces.len()));
    judge_mesh(c, &generic_vertices(6), &faces, "small");
}

fn ukey(a: u32, b: u32) -> (u32, u32) {
    (a.min(b), a.max(b))
}

struct Uf(Vec<usize>);
impl Uf {
    fn new(n: usize) -> Self {
        Uf((0..n).collect())
    }
    fn find(&mut self, x: usize) -> usize {
        let mut r = x;
        while self.0[r] != r {
            r = self.0[r];
        }
        let mut y = x;
        while self.0[y] != r {
            let n = self.0[y];
            self.0[y] = r;
            y = n;
        }
        r
    }
    fn union(&mut self, a: usize, b: usize) {
        let (ra, rb) = (self.find(a), self.find(b));
        if ra != rb {
            self.0[ra] = rb;
        }
    }
}

fn judge_mesh(c: &mut Ctx, verts: &[Point3], faces: &[[u32; 3]], kind: &str) {
    let nf = faces.len();
    let nv = verts.len();
    if nf <= 400 {
        c.set_case(json!({"vertices": gen::j3(verts), "faces": gen::jfaces(faces)}));
    } else {
        c.set_case(json!({"vertices": nv, "faces": nf, "kind": kind}));
    }
    // ---- the harness's own edge counting
    let mut mult: BTreeMap<(u32, u32), usize> = BTreeMap::new();
    let mut directed: HashMap<(u32, u32), usize> = HashMap::new();
    for f in faces {
        for k in 0..3 {
            let (a, b) = (f[k], f[(k + 1) % 3]);
            *mult.entry(ukey(a, b)).or_default() += 1;
            *directed.entry((a, b)).or_default() += 1;
        }
    }
    let ne = mult.len();
    let non_manifold = mult.values().any(|m| *m > 2);
    let flipped = directed.values().any(|m| *m > 1);
    // boundary degree per vertex (vertex-only contacts show up as degree > 2)
    let mut bdeg: HashMap<u32, usize> = HashMap::new();
    for (e, m) in &mult {
        if *m == 1 {
            *bdeg.entry(e.0).or_default() += 1;
            *bdeg.entry(e.1).or_default() += 1;
        }
    }
    let pinched = bdeg.values().any(|d| *d > 2);
    let class = if non_manifold {
        "non-manifold-edge"
    } else if flipped && pinched {
        "flipped-winding+vertex-contact"
    } else if flipped {
        "flipped-winding"
    } else if pinched {
        "vertex-only-contact"
    } else {
        "consistent"
    };
    c.note(&format!("mesh class/{class}"));
    let mesh = Mesh::new(verts.to_vec(), faces.to_vec(), false);
    let fuel = 8 * ((nf + ne + nv + 1) as u64).pow(2);
    let reps = if c.thorough { 6 } else { 3 };

    // ---- calc_edges, repeated for different hash orders
    let mut canon_edges: Option<(Vec<(u32, u32)>, Vec<(u32, u32)>)> = None;
    for rep in 0..reps {
        let (r, used) = guard_fuel(fuel, || {
            mesh.calc_edges().ok().map(|e| (e.edges.clone(), e.edge_lengths.clone(), e.face_edges.clone(), e.boundary_loops.clone()))
        });
        c.eval();
        c.maxf("steps/bound (calc_edges)", used as f64 / fuel as f64);
        let res = match r {
            Err(p) => {
                let clause = if p.fuel_site.is_some() { "terminates within the step bound" } else { "no-panic" };
                c.check("Mesh::calc_edges", clause, class, false, || format!("{} {} ({nf} faces, {ne} edges, {nv} vertices, bound {fuel})", p.sig(), p.msg));
                break;
            }
            Ok(x) => x,
        };
        c.check("Mesh::calc_edges", "terminates within the step bound", class, true, || String::new());
        if !c.check("Mesh::calc_edges", "Err iff an edge is shared by more than two faces", class, res.is_none() == non_manifold, || {
            format!("max multiplicity {} but result is {}", mult.values().max().unwrap(), if res.is_some() { "Ok" } else { "Err" })
        }) {
            break;
        }
        let Some((edges, lens, face_edges, loops)) = res else { break };
        // each undirected edge once
        let got: BTreeSet<(u32, u32)> = edges.iter().map(|e| ukey(e[0], e[1])).collect();
        let want: BTreeSet<(u32, u32)> = mult.keys().cloned().collect();
        c.check("Mesh::calc_edges", "edge table lists each undirected edge once", class, edges.len() == ne && got == want, || format!("{} entries for {ne} edges", edges.len()));
        let ok_len = lens.len() == edges.len() && edges.iter().zip(lens.iter()).all(|(e, l)| ((verts[e[0] as usize] - verts[e[1] as usize]).norm() - l).abs() <= 1e-12 * (1.0 + l));
        c.check("Mesh::calc_edges", "edge lengths are the vertex distances", class, ok_len, || "length".into());
        // face -> its three edges, edge j opposite vertex j
        let mut ok_fe = face_edges.len() == nf;
        if ok_fe {
            for (f, fe) in faces.iter().zip(face_edges.iter()) {
                for j in 0..3 {
                    let e = edges.get(fe[j] as usize);
                    let want = ukey(f[(j + 1) % 3], f[(j + 2) % 3]);
                    if e.map(|e| ukey(e[0], e[1])) != Some(want) {
                        ok_fe = false;
                    }
                }
            }
        }
        c.check("Mesh::calc_edges", "every face is mapped to its three edges", class, ok_fe, || "face_edges".into());
        // boundary loops: closed cycles containing every boundary edge exactly once
        let mut loop_edges: BTreeMap<(u32, u32), usize> = BTreeMap::new();
        let mut closed_ok = true;
        for lp in &loops {
            if lp.len() < 2 {
                closed_ok = false;
                continue;
            }
            for i in 0..lp.len() {
                let (a, b) = (lp[i], lp[(i + 1) % lp.len()]);
                if a == b {
                    closed_ok = false;
                }
                *loop_edges.entry(ukey(a, b)).or_default() += 1;
            }
        }
        let want_b: BTreeMap<(u32, u32), usize> = mult.iter().filter(|(_, m)| **m == 1).map(|(k, _)| (*k, 1)).collect();
        c.check("Mesh::calc_edges", "boundary loops contain every boundary edge exactly once", class, closed_ok && loop_edges == want_b, || {
            format!("{} loops with {} distinct edges; {} boundary edges expected; loops {:?}", loops.len(), loop_edges.len(), want_b.len(), loops.iter().take(4).collect::<Vec<_>>())
        });
        // hash-order independence (as sets)
        let mut ce: Vec<(u32, u32)> = got.into_iter().collect();
        ce.sort();
        let mut cl: Vec<(u32, u32)> = loop_edges.keys().cloned().collect();
        cl.sort();
        match &canon_edges {
            None => canon_edges = Some((ce, cl)),
            Some((e0, l0)) => {
                c.check("Mesh::calc_edges", "same answer (as sets) for every hash-iteration order", class, *e0 == ce && *l0 == cl, || format!("repetition {rep} differs"));
            }
        }
    }

    // ---- patches
    let mut uf = Uf::new(nf);
    let mut first: HashMap<(u32, u32), usize> = HashMap::new();
    for (i, f) in faces.iter().enumerate() {
        for k in 0..3 {
            let key = ukey(f[k], f[(k + 1) % 3]);
            match first.get(&key) {
                Some(j) => uf.union(i, *j),
                None => {
                    first.insert(key, i);
                }
            }
        }
    }
    let mut want_p: BTreeMap<usize, Vec<usize>> = BTreeMap::new();
    for i in 0..nf {
        let r = uf.find(i);
        want_p.entry(r).or_default().push(i);
    }
    let want_set: BTreeSet<Vec<usize>> = want_p.into_values().collect();
    let mut orders_seen: HashSet<Vec<u32>> = HashSet::new();
    // the patch decomposition is only specified for meshes without an edge shared by > 2 faces
    let reps = if non_manifold { 0 } else { reps };
    for rep in 0..reps {
        // probe: how many distinct iteration orders does a std HashSet take on this thread?
        let probe: HashSet<u32> = (0..8).collect();
        orders_seen.insert(probe.iter().cloned().collect());
        let (r, used) = guard_fuel(fuel, || mesh.get_patches());
        c.eval();
        c.maxf("steps/bound (get_patches)", used as f64 / fuel as f64);
        match r {
            Err(p) => {
                let clause = if p.fuel_site.is_some() { "terminates within the step bound" } else { "no-panic" };
                c.check("Mesh::get_patches", clause, class, false, || format!("{} {}", p.sig(), p.msg));
                break;
            }
            Ok(patches) => {
                let mut seen = vec![0usize; nf];
                for p in &patches {
                    for f in p {
                        if *f < nf {
                            seen[*f] += 1;
                        }
                    }
                }
                c.check("Mesh::get_patches", "every face in exactly one patch", class, seen.iter().all(|s| *s == 1), || format!("face counts {:?}", &seen[..seen.len().min(12)]));
                let got: BTreeSet<Vec<usize>> = patches
                    .iter()
                    .map(|p| {
                        let mut q = p.clone();
                        q.sort();
                        q
                    })
                    .collect();
                c.check("Mesh::get_patches", "same patch iff connected through shared edges", class, got == want_set, || {
                    format!("got {} patches, connectivity gives {} (repetition {rep}); got {:?}", got.len(), want_set.len(), got.iter().take(4).collect::<Vec<_>>())
                });
            }
        }
    }
    c.note_n("hash iteration orders observed (probe set)", orders_seen.len() as u64);
    if nf >= 2 && ne < 3 * nf {
        let mut h = std::collections::hash_map::DefaultHasher::new();
        use std::hash::{Hash, Hasher};
        faces.hash(&mut h);
        c.distinct(&h.finish());
    }
}

// ---------------------------------------------------------------------------------------------
// random larger meshes

fn grid_disk(c: &mut Ctx, nx: usize, ny: usize) -> RawMesh {
    let mut m = gen::mesh_heightfield(&mut c.rng, nx, ny, 1.0, 1.0, 0.1, 0.3);
    // punch holes: remove random quads (both triangles)
    let holes = c.rng.int(0, 3);
    for _ in 0..holes {
        if m.f.len() > 8 {
            let q = c.rng.int(0, m.f.len() / 2 - 1);
            m.f.remove(2 * q + 1);
            m.f.remove(2 * q);
        }
    }
    m.name = "grid-disk";
    m
}

fn run_random(c: &mut Ctx) {
    let big = c.thorough && c.rng.chance(0.01);
    let mut m = match c.rng.int(0, 5) {
        0 => {
            let (nx, ny) = if big { (150, 160) } else { (c.rng.int(1, 14), c.rng.int(1, 14)) };
            grid_disk(c, nx, ny)
        }
        1 => gen::mesh_prism(c.rng.int(3, 24), 0.5, 1.0, false),
        2 => gen::mesh_prism(c.rng.int(3, 24), 0.5, 1.0, true),
        3 => gen::mesh_icosphere(c.rng.int(0, if big { 5 } else { 2 }), 0.5),
        4 => gen::mesh_torus(c.rng.int(3, 14), c.rng.int(3, 10), 0.4, 0.1),
        _ => gen::mesh_box(1.0, 0.7, 0.4),
    };
    let mut kind = m.name.to_string();
    // multi-component: append a disjoint copy
    if c.rng.chance(0.3) {
        let off = m.v.len() as u32;
        let copy: Vec<Point3> = m.v.iter().map(|p| p + Vector3::new(3.0, 0.0, 0.0)).collect();
        let cf: Vec<[u32; 3]> = m.f.iter().map(|t| [t[0] + off, t[1] + off, t[2] + off]).collect();
        m.v.extend(copy);
        m.f.extend(cf);
        kind.push_str("+copy");
        // vertex-only contact: weld one vertex of the copy onto the original
        if c.rng.chance(0.5) {
            let a = c.rng.int(0, off as usize - 1) as u32;
            let b = off + c.rng.int(0, off as usize - 1) as u32;
            for t in m.f.iter_mut() {
                for x in t.iter_mut() {
                    if *x == b {
                        *x = a;
                    }
                }
            }
            kind.push_str("+welded-vertex");
        }
    }
    // random flips
    if c.rng.chance(0.3) {
        let k = c.rng.int(1, 3);
        for _ in 0..k {
            let i = c.rng.int(0, m.f.len() - 1);
            m.f[i].swap(1, 2);
        }
        kind.push_str("+flips");
    }
    // permute labels, shuffle faces, rotate index triples
    let perm = c.rng.perm(m.v.len());
    let mut nv = vec![Point3::origin(); m.v.len()];
    for (old, new) in perm.iter().enumerate() {
        nv[*new] = m.v[old];
    }
    let mut nfaces: Vec<[u32; 3]> = m
        .f
        .iter()
        .map(|t| {
            let r = c.rng.int(0, 2);
            let q = [perm[t[0] as usize] as u32, perm[t[1] as usize] as u32, perm[t[2] as usize] as u32];
            [q[r], q[(r + 1) % 3], q[(r + 2) % 3]]
        })
        .collect();
    c.rng.shuffle(&mut nfaces);
    // drop degenerate faces created by welding (two equal indices)
    nfaces.retain(|t| t[0] != t[1] && t[1] != t[2] && t[0] != t[2]);
    if nfaces.is_empty() {
        return;
    }
    c.family(&format!("random-mesh/{}", m.name));
    c.note(&format!("random mesh kind/{kind}"));
    judge_mesh(c, &nv, &nfaces, &kind);
}

// ---------------------------------------------------------------------------------------------
// voxels

fn run_voxels(c: &mut Ctx) {
    let kind = c.rng.int(0, 3);
    let mut set: HashSet<(i32, i32, i32)> = HashSet::new();
    let n = if c.thorough && c.rng.chance(0.01) { 100_000 } else { c.rng.int(0, 600) };
    let off = (c.rng.iint(-50, 50) as i32, c.rng.iint(-50, 50) as i32, c.rng.iint(-50, 50) as i32);
    match kind {
        0 => {
            // blobs: random walks
            let mut p = off;
            for _ in 0..n {
                set.insert(p);
                let d = c.rng.int(0, 5);
                let s = if c.rng.bool() { 1 } else { -1 };
                match d / 2 {
                    0 => p.0 += s,
                    1 => p.1 += s,
                    _ => p.2 += s,
                }
                if c.rng.chance(0.02) {
                    p = (off.0 + c.rng.iint(-30, 30) as i32, off.1 + c.rng.iint(-30, 30) as i32, off.2 + c.rng.iint(-30, 30) as i32);
                }
            }
        }
        1 => {
            // diagonal-only chains: consecutive voxels touch at a corner or an edge only
            let mut p = off;
            for _ in 0..n.min(200) {
                set.insert(p);
                let (sx, sy, sz) = (if c.rng.bool() { 1 } else { -1 }, if c.rng.bool() { 1 } else { -1 }, if c.rng.bool() { 1 } else { 0 });
                p = (p.0 + sx, p.1 + sy, p.2 + sz);
            }
        }
        2 => {
            // sparse
            for _ in 0..n.min(300) {
                set.insert((off.0 + c.rng.iint(-8, 8) as i32, off.1 + c.rng.iint(-8, 8) as i32, off.2 + c.rng.iint(-8, 8) as i32));
            }
        }
        _ => {
            // slab with gaps exactly two apart (not connected)
            for i in 0..(n.min(100) as i32) {
                set.insert((off.0 + 2 * i, off.1, off.2));
                if c.rng.bool() {
                    set.insert((off.0 + 2 * i + 1, off.1 + 1, off.2 - 1));
                }
            }
        }
    }
    c.family(&format!("voxels/kind{kind}"));
    let list: Vec<(i32, i32, i32)> = set.iter().cloned().collect();
    if list.len() <= 300 {
        let mut sorted = list.clone();
        sorted.sort();
        c.set_case(json!({"voxels": sorted.iter().map(|v| json!([v.0, v.1, v.2])).collect::<Vec<_>>()}));
    } else {
        c.set_case(json!({"voxels": list.len()}));
    }
    // oracle: union-find over 26-neighbourhoods
    let idx: HashMap<(i32, i32, i32), usize> = list.iter().enumerate().map(|(i, v)| (*v, i)).collect();
    let mut uf = Uf::new(list.len());
    for (i, v) in list.iter().enumerate() {
        for dx in -1..=1 {
            for dy in -1..=1 {
                for dz in -1..=1 {
                    if (dx, dy, dz) != (0, 0, 0) {
                        if let Some(j) = idx.get(&(v.0 + dx, v.1 + dy, v.2 + dz)) {
                            uf.union(i, *j);
                        }
                    }
                }
            }
        }
    }
    let mut want: BTreeMap<usize, Vec<(i32, i32, i32)>> = BTreeMap::new();
    for (i, v) in list.iter().enumerate() {
        let r = uf.find(i);
        want.entry(r).or_default().push(*v);
    }
    let want_set: BTreeSet<Vec<(i32, i32, i32)>> = want
        .into_values()
        .map(|mut v| {
            v.sort();
            v
        })
        .collect();
    let fuel = 8 * (list.len() as u64 + 1).pow(2);
    for _ in 0..3 {
        let input: HashSet<(i32, i32, i32)> = list.iter().cloned().collect();
        let (r, used) = guard_fuel(fuel, || clusters_from_sparse(input));
        c.eval();
        c.maxf("steps/bound (clusters_from_sparse)", used as f64 / fuel as f64);
        match r {
            Err(p) => {
                let clause = if p.fuel_site.is_some() { "terminates within the step bound" } else { "no-panic" };
                c.check("clusters_from_sparse", clause, "voxels", false, || format!("{} {}", p.sig(), p.msg));
                return;
            }
            Ok(cl) => {
                let total: usize = cl.iter().map(|v| v.len()).sum();
                let mut all: Vec<(i32, i32, i32)> = cl.iter().flatten().cloned().collect();
                all.sort();
                all.dedup();
                c.check("clusters_from_sparse", "every voxel in exactly one cluster", "voxels", total == list.len() && all.len() == list.len(), || format!("{total} entries for {} voxels", list.len()));
                let got: BTreeSet<Vec<(i32, i32, i32)>> = cl
                    .into_iter()
                    .map(|mut v| {
                        v.sort();
                        v
                    })
                    .collect();
                c.check("clusters_from_sparse", "same cluster iff 26-connected", "voxels", got == want_set, || format!("{} clusters, connectivity gives {}", got.len(), want_set.len()));
            }
        }
    }
    if list.len() >= 2 {
        let mut s = list.clone();
        s.sort();
        c.distinct(&s);
    }
}

// ---------------------------------------------------------------------------------------------
// index chaining

fn run_chains(c: &mut Ctx) {
    // unions of directed paths and cycles over distinct vertex labels, shuffled; sometimes branching
    let mut pairs: Vec<[u32; 2]> = Vec::new();
    let mut next_label = 0u32;
    let ncomp = c.rng.int(0, 5);
    let mut has_cycle = false;
    for _ in 0..ncomp {
        let len = c.rng.int(1, 12);
        let labels: Vec<u32> = (0..=len as u32).map(|i| next_label + i).collect();
        next_label += len as u32 + 1 + c.rng.int(0, 2) as u32;
        for i in 0..len {
            pairs.push([labels[i], labels[i + 1]]);
        }
        if len >= 2 && c.rng.chance(0.3) {
            pairs.push([labels[len], labels[0]]);
            has_cycle = true;
        }
    }
    let branching = c.rng.chance(0.15) && pairs.len() >= 2;
    if branching {
        // an extra pair leaving an already used vertex
        let p = pairs[c.rng.int(0, pairs.len() - 1)];
        pairs.push([p[0], next_label + 5]);
    }
    // relabel to scramble numeric order
    let relabel = c.rng.perm(next_label as usize + 8);
    for p in pairs.iter_mut() {
        p[0] = relabel[p[0] as usize] as u32;
        p[1] = relabel[p[1] as usize] as u32;
    }
    c.rng.shuffle(&mut pairs);
    let class = if branching { "branching" } else if has_cycle { "paths+cycles" } else { "paths" };
    c.family(&format!("chains/{class}"));
    c.set_case(json!({"pairs": pairs.iter().map(|p| json!([p[0], p[1]])).collect::<Vec<_>>()}));
    let n = pairs.len();
    let fuel = 4 * (n as u64 + 1).pow(2) + 16;
    let (r, used) = guard_fuel(fuel, || chained_indices(&pairs));
    c.eval();
    c.maxf("steps/bound (chained_indices)", used as f64 / fuel as f64);
    let chains = match r {
        Err(p) => {
            let clause = if p.fuel_site.is_some() { "terminates within the step bound" } else { "no-panic" };
            c.check("chained_indices", clause, class, false, || format!("{} {} ({n} pairs)", p.sig(), p.msg));
            return;
        }
        Ok(ch) => ch,
    };
    // every pair used exactly once, consecutive inside a chain
    let mut used_pairs: BTreeMap<(u32, u32), i64> = BTreeMap::new();
    for p in &pairs {
        *used_pairs.entry((p[0], p[1])).or_default() += 1;
    }
    let mut ok_pairs = true;
    for ch in &chains {
        if ch.len() < 2 {
            ok_pairs = false;
        }
        for w in ch.windows(2) {
            match used_pairs.get_mut(&(w[0], w[1])) {
                Some(cnt) => *cnt -= 1,
                None => ok_pairs = false,
            }
        }
    }
    c.check("chained_indices", "every pair used exactly once, consecutive inside a chain", class, ok_pairs && used_pairs.values().all(|v| *v == 0), || {
        format!("{} chains from {n} pairs; leftover counts {:?}", chains.len(), used_pairs.iter().filter(|(_, v)| **v != 0).take(4).collect::<Vec<_>>())
    });
    if !branching {
        // maximal: no chain's last element is another chain's first; a cycle is a single chain
        let mut ok_max = true;
        for (i, a) in chains.iter().enumerate() {
            for (j, b) in chains.iter().enumerate() {
                if i != j && !a.is_empty() && !b.is_empty() && a[a.len() - 1] == b[0] {
                    ok_max = false;
                }
            }
        }
        c.check("chained_indices", "no two chains can be concatenated", class, ok_max, || format!("{chains:?}"));
        let ncyc = chains.iter().filter(|ch| ch.len() >= 3 && ch[0] == ch[ch.len() - 1]).count();
        let want_comp = ncomp_of(&pairs);
        c.check("chained_indices", "one chain per connected path or cycle", class, chains.len() == want_comp, || format!("{} chains for {want_comp} components ({ncyc} closed)", chains.len()));
    }
    if n >= 2 {
        c.distinct(&pairs);
    }
}

fn ncomp_of(pairs: &[[u32; 2]]) -> usize {
    let mut labels: Vec<u32> = pairs.iter().flat_map(|p| [p[0], p[1]]).collect();
    labels.sort();
    labels.dedup();
    let idx: HashMap<u32, usize> = labels.iter().enumerate().map(|(i, l)| (*l, i)).collect();
    let mut uf = Uf::new(labels.len());
    for p in pairs {
        uf.union(idx[&p[0]], idx[&p[1]]);
    }
    let mut roots = HashSet::new();
    for i in 0..labels.len() {
        roots.insert(uf.find(i));
    }
    roots.len()
}

// ---------------------------------------------------------------------------------------------
// primitive generators

fn run_generators(c: &mut Ctx) {
    let which = c.rng.bool();
    let (mesh, name, centre): (Mesh, &str, Point3) = if which {
        let (w, h, d) = (c.rng.log_range(0.1, 50.0), c.rng.log_range(0.1, 50.0), c.rng.log_range(0.1, 50.0));
        c.family("generators/box");
        c.set_case(json!({"box": [w, h, d]}));
        (Mesh::create_box(w, h, d, c.rng.bool()), "Mesh::create_box", Point3::new(w / 2.0, h / 2.0, d / 2.0))
    } else {
        let (r, h, steps) = (c.rng.log_range(0.1, 50.0), c.rng.log_range(0.1, 50.0), c.rng.int(3, 64));
        c.family("generators/cylinder");
        c.set_case(json!({"cylinder": {"radius": r, "height": h, "steps": steps}}));
        (Mesh::create_cylinder(r, h, steps), "Mesh::create_cylinder", Point3::new(0.0, 0.0, h / 2.0))
    };
    c.eval();
    let v = mesh.vertices().to_vec();
    let f = mesh.faces().to_vec();
    // consistent winding: every directed edge at most once, every interior edge once in each direction
    let mut directed: HashMap<(u32, u32), usize> = HashMap::new();
    for t in &f {
        for k in 0..3 {
            *directed.entry((t[k], t[(k + 1) % 3])).or_default() += 1;
        }
    }
    let consistent = directed.values().all(|m| *m == 1);
    c.check(name, "consistently wound (no directed edge used twice)", "generator", consistent, || {
        format!("{} directed edges are used by two faces", directed.values().filter(|m| **m > 1).count())
    });
    // outward normals: away from the axis (cylinder) / centre (box)
    let mut inward = 0;
    for t in &f {
        let (a, b, cc) = (v[t[0] as usize], v[t[1] as usize], v[t[2] as usize]);
        let n = (b - a).cross(&(cc - a));
        let mid = Point3::from((a.coords + b.coords + cc.coords) / 3.0);
        let out = if which { mid - centre } else { Vector3::new(mid.x, mid.y, 0.0) };
        if n.dot(&out) <= 0.0 {
            inward += 1;
        }
    }
    c.check(name, "every face normal points outward", "generator", inward == 0, || format!("{inward} of {} faces point inward", f.len()));
    c.distinct(&(which, v.len(), v[1].x.to_bits()));
}
