//! C13 — Plane sections and splits of a mesh lie on the plane and on the surface.
//!
//! Oracle: incidence (on plane, on surface, inside one face), exactly-once accounting of the
//! plane-face crossing segments computed by the harness, convex-hull perimeter for convex solids,
//! area conservation for splits, equivariance under rigid motion.  Calls that may not terminate
//! inside unhooked third-party code (sections of open meshes, planes through vertices) are first
//! tried in a sacrificial child process.

use crate::gen::{self, RawMesh};
use crate::oracle::{self, dist_tri, hull_indices, U};
use crate::report::{guard, Ctx, Probe};
use crate::{Spec, Stream};
use engeom::common::SplitResult;
use engeom::{Iso3, Mesh, Plane3, Point2, Point3, UnitVec3, Vector3};
use serde_json::json;

pub fn spec() -> Spec {
    Spec {
        id: "C13",
        rule: "boxes, prisms, tubes, icospheres, tori and height fields in random pose x planes with any normal and offsets from 'misses' to 'through the middle'; the main run keeps every mesh vertex >= 1e-4*size from the plane; \
               a robustness run puts the plane exactly through vertices / edges and judges only the weak clauses; open meshes (tubes cut lengthwise, height fields) are run behind a child-process guard. \
               Non-trivial = a plane that crosses at least 3 faces; distinct = hash(mesh fingerprint, plane bits).",
        assumptions: &[
            "crossing segments expected by the oracle: one per face whose vertices have mixed signs, between the two interpolated edge crossings",
            "tolerance 1e-9*size + 1e3*u*offset; sections are requested with an explicit curve tolerance of 1e-9*size so that de-duplication cannot merge crossings",
            "a call that dies in the child process (memory exhaustion / time limit) is reported as 'does not terminate' for the input class of the case",
        ],
        streams: vec![
            Stream { name: "closed-meshes", quick: 6000, thorough: 200_000, run: run_closed },
            Stream { name: "robustness", quick: 150, thorough: 4000, run: run_robust },
            Stream { name: "open-meshes", quick: 24, thorough: 400, run: run_open },
        ],
        required: vec![
            ("Mesh::section :: every vertex on the plane", 3000),
            ("Mesh::section :: each plane-face crossing segment used exactly once", 3000),
            ("Mesh::section :: convex solid: one loop with the perimeter of the cross-section", 500),
            ("Mesh::split :: areas add up", 1000),
            ("Mesh::section :: commutes with rigid motion", 1000),
        ],
        exhaustive_note: None,
    }
}

struct Crossing {
    a: Point3,
    b: Point3,
    face: usize,
}

/// plane-face crossing segments expected from the signs of the vertices
fn crossings(m: &RawMesh, n: &Vector3, d: f64) -> Vec<Crossing> {
    let sd: Vec<f64> = m.v.iter().map(|p| n.dot(&p.coords) - d).collect();
    let mut out = Vec::new();
    for (fi, t) in m.f.iter().enumerate() {
        let mut pts = Vec::new();
        for k in 0..3 {
            let (i, j) = (t[k] as usize, t[(k + 1) % 3] as usize);
            if (sd[i] < 0.0) != (sd[j] < 0.0) {
                let f = sd[i] / (sd[i] - sd[j]);
                pts.push(m.v[i] + (m.v[j] - m.v[i]) * f);
            }
        }
        if pts.len() == 2 {
            out.push(Crossing { a: pts[0], b: pts[1], face: fi });
        }
    }
    out
}

fn min_vertex_clearance(m: &RawMesh, n: &Vector3, d: f64) -> f64 {
    m.v.iter().map(|p| (n.dot(&p.coords) - d).abs()).fold(f64::INFINITY, f64::min)
}

fn pick_plane(c: &mut Ctx, m: &RawMesh, size: f64, miss: bool) -> Option<(Vector3, f64)> {
    for _ in 0..30 {
        let n = match c.rng.int(0, 4) {
            0 => *c.rng.pick(&[Vector3::x(), Vector3::y(), Vector3::z(), -Vector3::z()]),
            _ => gen::unit3(&mut c.rng),
        };
        let proj: Vec<f64> = m.v.iter().map(|p| n.dot(&p.coords)).collect();
        let (lo, hi) = (proj.iter().cloned().fold(f64::INFINITY, f64::min), proj.iter().cloned().fold(f64::NEG_INFINITY, f64::max));
        let d = if miss { if c.rng.bool() { hi + size * c.rng.range(0.01, 1.0) } else { lo - size * c.rng.range(0.01, 1.0) } } else { c.rng.range(lo, hi) };
        if min_vertex_clearance(m, &n, d) >= 1e-4 * size {
            return Some((n, d));
        }
    }
    None
}

fn closed_mesh(c: &mut Ctx) -> RawMesh {
    let size = if c.rng.chance(0.4) { c.rng.log_range(1e-2, 1e2) } else { c.rng.range(0.5, 3.0) };
    let tiny = c.tiny;
    let m = match c.rng.int(0, 4) {
        0 => gen::mesh_box(c.rng.range(0.3, 1.0), c.rng.range(0.3, 1.0), c.rng.range(0.3, 1.0)),
        1 => gen::mesh_prism(c.rng.int(3, if tiny { 8 } else { 40 }), 0.5, c.rng.range(0.3, 1.5), true),
        2 => gen::mesh_icosphere(c.rng.int(0, if tiny { 0 } else { 3 }), 0.5),
        3 => gen::mesh_torus(c.rng.int(4, if tiny { 6 } else { 24 }), c.rng.int(4, if tiny { 5 } else { 16 }), 0.4, c.rng.range(0.05, 0.2)),
        _ => gen::mesh_icosphere(1, 0.5),
    };
    let t = {
        let tm = if c.rng.chance(0.2) { 1e3 } else { 2.0 * size };
        gen::iso3(&mut c.rng, tm)
    };
    m.scaled(size).transformed(&t)
}

/// judge a list of section curves against the oracle's crossing list
#[allow(clippy::too_many_arguments)]
fn judge_section(c: &mut Ctx, m: &RawMesh, n: &Vector3, d: f64, curves: &[Vec<Point3>], eps: f64, class: &str, strict: bool) {
    let api = "Mesh::section";
    let cr = crossings(m, n, d);
    // every vertex on the plane and on the surface
    let mut worst_plane = 0.0f64;
    let mut worst_surf = 0.0f64;
    for cv in curves {
        for p in cv {
            worst_plane = worst_plane.max((n.dot(&p.coords) - d).abs());
            worst_surf = worst_surf.max(oracle::brute_mesh(&m.v, &m.f, p).0);
        }
    }
    c.close(api, "every vertex on the plane", class, worst_plane, 0.0, eps);
    c.close(api, "every vertex on the mesh surface", class, worst_surf, 0.0, eps);
    if !strict {
        return;
    }
    // consecutive vertices are joined across one face; each expected segment used exactly once
    let mut used = vec![0usize; cr.len()];
    let mut unmatched = 0usize;
    let mut not_in_face = 0usize;
    for cv in curves {
        for w in cv.windows(2) {
            let hit = cr.iter().position(|s| ((s.a - w[0]).norm() <= eps && (s.b - w[1]).norm() <= eps) || ((s.a - w[1]).norm() <= eps && (s.b - w[0]).norm() <= eps));
            match hit {
                Some(k) => {
                    used[k] += 1;
                    let t = m.f[cr[k].face];
                    let (x, y, z) = (m.v[t[0] as usize], m.v[t[1] as usize], m.v[t[2] as usize]);
                    if dist_tri(&x, &y, &z, &w[0]) > eps || dist_tri(&x, &y, &z, &w[1]) > eps {
                        not_in_face += 1;
                    }
                }
                None => unmatched += 1,
            }
        }
    }
    c.check(api, "consecutive vertices are joined across one face", class, not_in_face == 0 && unmatched == 0, || format!("{unmatched} curve segments match no plane-face crossing, {not_in_face} leave their face"));
    let missing = used.iter().filter(|u| **u == 0).count();
    let repeated = used.iter().filter(|u| **u > 1).count();
    c.check(api, "each plane-face crossing segment used exactly once", class, missing == 0 && repeated == 0, || {
        format!("{} crossing faces: {missing} segments missing, {repeated} used more than once; {} curves with {:?} vertices", cr.len(), curves.len(), curves.iter().map(|v| v.len()).collect::<Vec<_>>())
    });
    if cr.is_empty() {
        c.check(api, "plane missing the mesh gives no curve", class, curves.is_empty(), || format!("{} curves", curves.len()));
    }
    if m.closed {
        let tol_close = eps;
        let all_closed = curves.iter().all(|cv| cv.len() >= 3 && (cv[0] - cv[cv.len() - 1]).norm() <= tol_close);
        c.check(api, "watertight mesh: every section curve is closed", class, all_closed, || format!("{:?}", curves.iter().map(|cv| (cv.len(), (cv[0] - cv[cv.len() - 1]).norm())).collect::<Vec<_>>()));
    }
    if m.closed && m.convex && !cr.is_empty() {
        // perimeter of the convex hull of all crossing points, in plane coordinates
        let u = {
            let a = if n.x.abs() < 0.9 { Vector3::x() } else { Vector3::y() };
            (a - n * a.dot(n)).normalize()
        };
        let w = n.cross(&u);
        let o = cr[0].a;
        let p2: Vec<Point2> = cr.iter().flat_map(|s| [s.a, s.b]).map(|p| Point2::new((p - o).dot(&u), (p - o).dot(&w))).collect();
        let h = hull_indices(&p2);
        let per: f64 = (0..h.len()).map(|i| (p2[h[i]] - p2[h[(i + 1) % h.len()]]).norm()).sum();
        let got: f64 = curves.iter().map(|cv| cv.windows(2).map(|s| (s[1] - s[0]).norm()).sum::<f64>()).sum();
        c.check(api, "convex solid: one loop with the perimeter of the cross-section", class, curves.len() == 1 && (got - per).abs() <= 1e-9 * per + 8.0 * eps, || {
            format!("{} curves, total length {got:e}, hull perimeter {per:e}", curves.len())
        });
    }
}

fn run_closed(c: &mut Ctx) {
    let raw = closed_mesh(c);
    let size = raw.extent();
    let miss = c.rng.chance(0.1);
    let Some((n, d)) = pick_plane(c, &raw, size, miss) else { return };
    c.family(&format!("closed/{}{}", raw.name, if miss { "/miss" } else { "" }));
    if raw.f.len() <= 300 {
        c.set_case(json!({"mesh": raw.json(), "plane": {"normal": [n.x, n.y, n.z], "d": d}}));
    } else {
        c.set_case(json!({"mesh": {"kind": raw.name, "faces": raw.f.len()}, "plane": {"normal": [n.x, n.y, n.z], "d": d}}));
    }
    let class = raw.name;
    let eps = 1e-9 * size + 1e3 * U * raw.offset_norm();
    let mesh = raw.to_mesh(false);
    let plane = Plane3::new(UnitVec3::new_normalize(n), d);
    let tol = Some(1e-9 * size);
    let r = guard(|| mesh.section(&plane, tol).map(|v| v.iter().map(|cv| cv.points().to_vec()).collect::<Vec<_>>()));
    c.eval();
    let curves = match r {
        Err(p) => {
            c.check("Mesh::section", "no-panic", class, false, || format!("{} {}", p.sig(), p.msg));
            return;
        }
        Ok(Err(e)) => {
            c.check("Mesh::section", "Ok", class, false, || format!("Err({e})"));
            return;
        }
        Ok(Ok(v)) => v,
    };
    judge_section(c, &raw, &n, d, &curves, eps, class, true);
    let ncross = crossings(&raw, &n, d).len();

    // ---- split
    let r = guard(|| match mesh.split(&plane) {
        SplitResult::Pair(a, b) => (0, Some((a.vertices().to_vec(), a.faces().to_vec(), b.vertices().to_vec(), b.faces().to_vec()))),
        SplitResult::Negative => (-1, None),
        SplitResult::Positive => (1, None),
    });
    c.eval();
    match r {
        Err(p) => {
            c.check("Mesh::split", "no-panic", class, false, || format!("{} {}", p.sig(), p.msg));
        }
        Ok((side, parts)) => {
            let sd: Vec<f64> = raw.v.iter().map(|p| n.dot(&p.coords) - d).collect();
            let all_neg = sd.iter().all(|s| *s < 0.0);
            let all_pos = sd.iter().all(|s| *s > 0.0);
            let want = if all_neg { -1 } else if all_pos { 1 } else { 0 };
            c.check("Mesh::split", "reports the side when the mesh is wholly on one side, a pair otherwise", class, side == want, || format!("result {side}, vertex signs say {want}"));
            if let Some((av, af, bv, bf)) = parts {
                let area = |v: &[Point3], f: &[[u32; 3]]| -> f64 { f.iter().map(|t| 0.5 * (v[t[1] as usize] - v[t[0] as usize]).cross(&(v[t[2] as usize] - v[t[0] as usize])).norm()).sum() };
                let total = raw.area();
                c.close("Mesh::split", "areas add up to the original area", class, area(&av, &af) + area(&bv, &bf), total, 1e-9 * total);
                let worst_a = av.iter().map(|p| n.dot(&p.coords) - d).fold(f64::NEG_INFINITY, f64::max);
                let worst_b = bv.iter().map(|p| n.dot(&p.coords) - d).fold(f64::INFINITY, f64::min);
                c.check("Mesh::split", "first part on the negative side, second on the positive", class, worst_a <= eps + 1e-6 * size * 1e-3 && worst_b >= -(eps + 1e-6 * size * 1e-3), || format!("first part reaches {worst_a:e}, second {worst_b:e}"));
            }
        }
    }

    // ---- a coarse curve tolerance must not move the section: the `tol` argument only governs the
    // de-duplication of the returned curves.  Plane close to a vertex (closer than `tol`, but well
    // clear of the library's own 1e-6 snapping distance), tolerance up to 3% of the mesh size.
    if c.rng.chance(0.3) {
        let v0 = *c.rng.pick(&raw.v);
        let delta = (size * c.rng.log_range(2e-4, 5e-3)).max(4e-6) * c.rng.sign();
        let d2 = n.dot(&v0.coords) + delta;
        let coarse = Some(delta.abs() * c.rng.range(2.0, 6.0));
        if min_vertex_clearance(&raw, &n, d2) >= 0.9 * delta.abs() {
            let plane2 = Plane3::new(UnitVec3::new_normalize(n), d2);
            // the call is tried in a sacrificial child first: if the tolerance leaked into the
            // dependency's own snapping distance the traversal may not terminate
            if let Probe::Died(why) = c.probe_in_child(1_000_000, 20) {
                c.check("Mesh::section", "terminates whatever the curve tolerance", class, false, || format!("{why}; tolerance {:?}, plane {:e} from the nearest vertex", coarse, delta.abs()));
                return;
            }
            c.check("Mesh::section", "terminates whatever the curve tolerance", class, true, String::new);
            let r = guard(|| mesh.section(&plane2, coarse).map(|v| v.iter().map(|cv| cv.points().to_vec()).collect::<Vec<_>>()));
            c.eval();
            match r {
                Err(p) => {
                    c.check("Mesh::section", "no-panic", class, false, || format!("{} {} (coarse tolerance)", p.sig(), p.msg));
                }
                Ok(Err(_)) => c.note("section with a coarse tolerance: Err (not judged)"),
                Ok(Ok(cv)) => {
                    let mut worst_plane = 0.0f64;
                    let mut worst_surf = 0.0f64;
                    for p in cv.iter().flatten() {
                        worst_plane = worst_plane.max((n.dot(&p.coords) - d2).abs());
                        worst_surf = worst_surf.max(oracle::brute_mesh(&raw.v, &raw.f, p).0);
                    }
                    c.close("Mesh::section", "every vertex on the plane whatever the curve tolerance", class, worst_plane, 0.0, eps);
                    c.close("Mesh::section", "every vertex on the mesh surface whatever the curve tolerance", class, worst_surf, 0.0, eps);
                    // (a tiny loop around the vertex may legitimately collapse under the de-duplication)
                }
            }
        }
    }

    // ---- equivariance
    if c.rng.chance(0.4) && ncross > 0 {
        let t = gen::iso3(&mut c.rng, 2.0 * size);
        let moved = raw.transformed(&t);
        let mesh_t = moved.to_mesh(false);
        let plane_t = plane.transform_by(&t);
        let r = guard(|| mesh_t.section(&plane_t, tol).map(|v| v.iter().map(|cv| cv.points().to_vec()).collect::<Vec<_>>()));
        c.eval();
        if let Ok(Ok(ct)) = r {
            let len = |cs: &[Vec<Point3>]| -> f64 { cs.iter().map(|cv| cv.windows(2).map(|s| (s[1] - s[0]).norm()).sum::<f64>()).sum() };
            let eps_t = eps + 1e3 * U * (moved.offset_norm() + t.translation.vector.norm());
            let a: Vec<Point3> = curves.iter().flatten().map(|p| t * p).collect();
            let b: Vec<Point3> = ct.iter().flatten().cloned().collect();
            let haus = |x: &[Point3], y: &[Point3]| x.iter().map(|p| y.iter().map(|q| (p - q).norm()).fold(f64::INFINITY, f64::min)).fold(0.0, f64::max);
            let ok = ct.len() == curves.len() && (len(&ct) - len(&curves)).abs() <= 1e-9 * len(&curves) + 8.0 * eps_t && haus(&a, &b).max(haus(&b, &a)) <= 1e-7 * size + eps_t;
            c.check("Mesh::section", "commutes with rigid motion of mesh and plane", class, ok, || {
                format!("{} vs {} curves, lengths {:e} vs {:e}, Hausdorff {:e}", curves.len(), ct.len(), len(&curves), len(&ct), haus(&a, &b).max(haus(&b, &a)))
            });
        }
    }
    if ncross >= 3 {
        c.distinct(&(raw.f.len(), raw.v[0].x.to_bits(), d.to_bits()));
    }
}

/// planes exactly through vertices / edges: weak clauses only, behind the child-process guard
fn run_robust(c: &mut Ctx) {
    let raw = closed_mesh(c);
    let size = raw.extent();
    // plane through one, two or three vertices
    let nv = raw.v.len();
    let (n, d, kind) = match c.rng.int(0, 2) {
        0 => {
            let n = gen::unit3(&mut c.rng);
            let p = raw.v[c.rng.int(0, nv - 1)];
            (n, n.dot(&p.coords), "through-a-vertex")
        }
        1 => {
            let t = raw.f[c.rng.int(0, raw.f.len() - 1)];
            let (a, b) = (raw.v[t[0] as usize], raw.v[t[1] as usize]);
            let e = (b - a).normalize();
            let u = gen::unit3(&mut c.rng);
            let n = (u - e * u.dot(&e)).normalize();
            (n, n.dot(&a.coords), "through-an-edge")
        }
        _ => {
            let t = raw.f[c.rng.int(0, raw.f.len() - 1)];
            let (a, b, cc) = (raw.v[t[0] as usize], raw.v[t[1] as usize], raw.v[t[2] as usize]);
            let n = (b - a).cross(&(cc - a)).normalize();
            (n, n.dot(&a.coords), "in-a-face-plane")
        }
    };
    c.family(&format!("robust/{kind}"));
    c.set_case(json!({"mesh": if raw.f.len() <= 300 { raw.json() } else { json!({"kind": raw.name, "faces": raw.f.len()}) }, "plane": {"normal": [n.x, n.y, n.z], "d": d}, "kind": kind}));
    let mesh = raw.to_mesh(false);
    let plane = Plane3::new(UnitVec3::new_normalize(n), d);
    let tol = Some(1e-9 * size);
    if c.probe {
        let _ = mesh.section(&plane, tol);
        let _ = mesh.split(&plane);
        return;
    }
    c.eval();
    if let Probe::Died(why) = c.probe_in_child(1_000_000, 10) {
        c.check("Mesh::section", "terminates (plane through mesh vertices)", kind, false, || why.clone());
        return;
    }
    c.check("Mesh::section", "terminates (plane through mesh vertices)", kind, true, || String::new());
    let r = guard(|| mesh.section(&plane, tol).map(|v| v.iter().map(|cv| cv.points().to_vec()).collect::<Vec<_>>()));
    match r {
        Err(p) => {
            c.check("Mesh::section", "no-panic (plane through mesh vertices)", kind, false, || format!("{} {}", p.sig(), p.msg));
        }
        Ok(Ok(curves)) => {
            // parry snaps vertices within 1e-6 (absolute) of the plane onto it
            let eps = 1e-9 * size + 1e3 * U * raw.offset_norm() + 2e-6;
            judge_section(c, &raw, &n, d, &curves, eps, kind, false);
        }
        Ok(Err(_)) => {}
    }
    let r = guard(|| matches!(mesh.split(&plane), SplitResult::Pair(_, _)));
    if let Err(p) = r {
        c.check("Mesh::split", "no-panic (plane through mesh vertices)", kind, false, || format!("{} {}", p.sig(), p.msg));
    }
}

/// open meshes: height fields and tubes; the section polyline may have free ends
fn run_open(c: &mut Ctx) {
    let size = c.rng.range(0.5, 3.0);
    let (raw, lengthwise) = match c.rng.int(0, 2) {
        0 => {
            let (nx, ny) = (c.rng.int(2, 6), c.rng.int(2, 6));
            (gen::mesh_heightfield(&mut c.rng, nx, ny, 1.0, 0.8, 0.05, 0.3), true)
        }
        1 => (gen::mesh_prism(c.rng.int(4, 12), 0.5, 1.2, false), true),
        _ => (gen::mesh_prism(c.rng.int(4, 12), 0.5, 1.2, false), false),
    };
    let raw = raw.scaled(size);
    // planes: across the axis of a tube gives a closed loop; everything else leaves free ends
    let mut found = None;
    for _ in 0..30 {
        let n = if raw.name == "tube" && !lengthwise {
            (Vector3::z() + gen::unit3(&mut c.rng) * 0.1).normalize()
        } else if raw.name == "tube" {
            (Vector3::x() + gen::unit3(&mut c.rng) * 0.2).normalize()
        } else {
            (Vector3::x() * c.rng.range(-1.0, 1.0) + Vector3::y() * c.rng.range(-1.0, 1.0) + Vector3::z() * 0.1).normalize()
        };
        let proj: Vec<f64> = raw.v.iter().map(|p| n.dot(&p.coords)).collect();
        let (lo, hi) = (proj.iter().cloned().fold(f64::INFINITY, f64::min), proj.iter().cloned().fold(f64::NEG_INFINITY, f64::max));
        let d = c.rng.range(lo + 0.2 * (hi - lo), hi - 0.2 * (hi - lo));
        if min_vertex_clearance(&raw, &n, d) >= 1e-4 * size {
            found = Some((n, d));
            break;
        }
    }
    let Some((n, d)) = found else { return };
    // does the expected polyline have free ends?
    let cr = crossings(&raw, &n, d);
    let eps = 1e-9 * size;
    let mut ends: Vec<(Point3, usize)> = Vec::new();
    for s in &cr {
        for p in [s.a, s.b] {
            match ends.iter_mut().find(|e| (e.0 - p).norm() <= eps) {
                Some(e) => e.1 += 1,
                None => ends.push((p, 1)),
            }
        }
    }
    let free = ends.iter().filter(|e| e.1 == 1).count();
    let class = if free > 0 { "open-chain" } else { "closed-loop" };
    c.family(&format!("open/{}/{class}", raw.name));
    c.set_case(json!({"mesh": raw.json(), "plane": {"normal": [n.x, n.y, n.z], "d": d}, "free_ends": free}));
    let mesh = raw.to_mesh(false);
    let plane = Plane3::new(UnitVec3::new_normalize(n), d);
    let tol = Some(1e-9 * size);
    if c.probe {
        let _ = mesh.section(&plane, tol);
        return;
    }
    c.eval();
    c.note(&format!("open mesh section/{class}"));
    match c.probe_in_child(1_000_000, 10) {
        Probe::Died(why) => {
            c.check("Mesh::section", "terminates on an open mesh", class, false, || format!("{why}; {} crossing faces, {free} free ends", cr.len()));
        }
        Probe::Survived => {
            c.check("Mesh::section", "terminates on an open mesh", class, true, || String::new());
            if let Ok(Ok(curves)) = guard(|| mesh.section(&plane, tol).map(|v| v.iter().map(|cv| cv.points().to_vec()).collect::<Vec<_>>())) {
                judge_section(c, &raw, &n, d, &curves, eps + 1e3 * U * raw.offset_norm(), class, true);
                c.distinct(&(raw.f.len(), d.to_bits()));
            }
        }
    }
}
