//! C14 — Mesh face selection is set algebra over a per-face predicate.
//!
//! Oracle: a sequential `BTreeSet` model driven by random chains of Add / Remove / Keep steps; the
//! per-face predicate is evaluated face by face (independently of any selection, order or memo);
//! every chain is repeated with permuted starting indices.

use crate::gen::{self, RawMesh};
use crate::report::{guard, Ctx};
use crate::{Spec, Stream};
use engeom::common::{SelectOp, Selection};
use engeom::{Mesh, Point3, Vector3};
use serde_json::{json, Value};
use std::collections::BTreeSet;
use std::f64::consts::PI;

pub fn spec() -> Spec {
    Spec {
        id: "C14",
        rule: "subject meshes (box, sphere, torus, height field, 12..2000 faces) and reference meshes (the same surface offset / rotated slightly, partial overlaps); starting selections none / all / random index sets in random order; \
               chains of 1-6 steps over {Add, Remove, Keep} x {facing(n, angle), near_mesh(ref, all|any, dist, planar?, angle?)} with every combination of the optional tolerances; each chain is run several times and with permuted starting indices. \
               Meshes built from selections: subject meshes with and without vertices that no face uses (appended, prepended), selections none-empty: everything (Selection::All, identity and permuted index lists), random subsets, lists with repeated indices, lists as long as the face count. \
               Non-trivial = a chain whose final selection is neither empty nor everything; distinct = hash(mesh fingerprint, chain).",
        assumptions: &[
            "per-vertex projection onto the reference mesh uses the public project_with_max_dist (declared exception, DESIGN 2.4); everything else about the predicate is computed by the harness",
            "faces with any quantity within a guard band of its threshold (1e-9 relative on distances, 1e-7 rad on angles) are 'don't care'",
            "create_mesh / create_from_indices are exercised on non-empty selections (an empty triangle mesh is not representable)",
        ],
        streams: vec![
            Stream { name: "chains", quick: 40_000, thorough: 1_200_000, run: run },
            Stream { name: "built-mesh", quick: 20_000, thorough: 600_000, run: run_built },
        ],
        required: vec![
            ("TriangleFilter::facing", 10_000),
            ("TriangleFilter::near_mesh", 10_000),
            ("TriangleFilter chain :: identical result for every repetition and starting order", 2000),
            ("Mesh::create_from_indices", 1000),
            ("TriangleFilter::create_mesh", 1000),
        ],
        exhaustive_note: None,
    }
}

#[derive(Clone)]
enum Crit {
    Facing { n: Vector3, angle: f64 },
    Near { all: bool, dist: f64, planar: Option<f64>, angle: Option<f64> },
}

fn angle_between(a: &Vector3, b: &Vector3) -> f64 {
    // same definition as nalgebra's Matrix::angle
    let (na, nb) = (a.norm(), b.norm());
    if na == 0.0 || nb == 0.0 {
        return 0.0;
    }
    let (ua, ub) = (a / na, b / nb);
    2.0 * ((ua - ub).norm()).atan2((ua + ub).norm())
}

/// per-face predicate: Some(true/false) or None when inside a guard band
fn predicate(raw: &RawMesh, refm: &Mesh, ext: f64, f: usize, cr: &Crit) -> Option<bool> {
    let t = raw.f[f];
    let (a, b, c) = (raw.v[t[0] as usize], raw.v[t[1] as usize], raw.v[t[2] as usize]);
    let cr0 = (b - a).cross(&(c - a));
    if cr0.norm() == 0.0 {
        // a zero-area face has no normal: it never faces a direction, and it is near another mesh
        // only when no angle tolerance is asked for
        match cr {
            Crit::Facing { .. } => return Some(false),
            Crit::Near { angle: Some(_), .. } => return Some(false),
            _ => {}
        }
    } else if cr0.norm() < 1e-9 * (b - a).norm() * (c - a).norm() {
        return None; // a sliver whose normal is rounding noise
    }
    let fnrm = cr0.normalize();
    match cr {
        Crit::Facing { n, angle } => {
            let th = angle_between(&fnrm, n);
            if (th - angle).abs() < 1e-7 {
                None
            } else {
                Some(th < *angle)
            }
        }
        Crit::Near { all, dist, planar, angle } => {
            let mut results: Vec<Option<bool>> = Vec::new();
            for p in [a, b, c] {
                // distance cap: library projection (Some iff within the cap), with an independent guard
                let prj = refm.project_with_max_dist(&p, *dist);
                let true_d = (refm.point_closest_to(&p) - p).norm();
                if (true_d - dist).abs() <= 1e-9 * ext {
                    results.push(None);
                    continue;
                }
                let Some((pp, ri, _)) = prj else {
                    results.push(Some(false));
                    continue;
                };
                let mut ok = Some(true);
                if planar.is_some() || angle.is_some() {
                    let tri = refm.faces()[ri as usize];
                    let rv = refm.vertices();
                    let rn = (rv[tri[1] as usize] - rv[tri[0] as usize]).cross(&(rv[tri[2] as usize] - rv[tri[0] as usize])).normalize();
                    if let Some(pt) = planar {
                        let v = p - pp.point;
                        let lateral = (v - rn * rn.dot(&v)).norm();
                        if (lateral - pt).abs() <= 1e-9 * ext {
                            ok = None;
                        } else if lateral > *pt {
                            ok = Some(false);
                        }
                    }
                    if let Some(at) = angle {
                        // the angle between THIS face's normal and the reference triangle's normal
                        let th = angle_between(&fnrm, &rn);
                        if (th - at).abs() < 1e-7 {
                            ok = None;
                        } else if th > *at && ok.is_some() {
                            ok = Some(false);
                        }
                    }
                }
                results.push(ok);
            }
            // combine
            if *all {
                if results.iter().any(|r| *r == Some(false)) {
                    Some(false)
                } else if results.iter().any(|r| r.is_none()) {
                    None
                } else {
                    Some(true)
                }
            } else if results.iter().any(|r| *r == Some(true)) {
                Some(true)
            } else if results.iter().any(|r| r.is_none()) {
                None
            } else {
                Some(false)
            }
        }
    }
}

fn run(c: &mut Ctx) {
    let max_faces = if c.thorough && c.rng.chance(0.02) { 5000 } else { 300 };
    let raw = match c.rng.int(0, 3) {
        0 => gen::mesh_box(1.0, 0.8, 0.6),
        1 => gen::mesh_icosphere(c.rng.int(0, if max_faces > 1000 { 3 } else { 2 }), 0.5),
        2 => gen::mesh_torus(c.rng.int(4, 14), c.rng.int(4, 10), 0.4, 0.15),
        _ => {
            let (nx, ny) = (c.rng.int(2, 10), c.rng.int(2, 10));
            gen::mesh_heightfield(&mut c.rng, nx, ny, 1.0, 0.8, 0.15, 0.5)
        }
    };
    let scale = if c.rng.chance(0.3) { c.rng.log_range(0.05, 20.0) } else { 1.0 };
    let pose = gen::iso3(&mut c.rng, 3.0 * scale);
    let raw = raw.scaled(scale).transformed(&pose);
    let ext = raw.extent();
    // one mesh in five carries a zero-area face (third vertex coincides with the first) at a random
    // position of the face list: a valid mesh, whose degenerate face has no normal
    let raw_for_reference = raw.clone();
    let mut raw = raw;
    if c.rng.chance(0.2) {
        let t = raw.f[c.rng.int(0, raw.f.len() - 1)];
        raw.v.push(raw.v[t[0] as usize]);
        let k = raw.v.len() as u32 - 1;
        let at = c.rng.int(0, raw.f.len());
        raw.f.insert(at, [t[0], t[1], k]);
        raw.name = "with-zero-area-face";
    }
    let raw = raw;
    // reference mesh: the same surface moved slightly, or only part of it
    let shift = gen::small_iso3(&mut c.rng, 0.05 * ext, 0.1);
    let mut rref = raw_for_reference.transformed(&shift);
    if c.rng.chance(0.4) && rref.f.len() > 8 {
        let keep = c.rng.int(rref.f.len() / 3, rref.f.len() - 1);
        rref.f.truncate(keep);
    }
    let mesh = raw.to_mesh(false);
    let refm = rref.to_mesh(false);
    let nf = raw.f.len();
    c.family(&format!("chains/{}", raw.name));

    // chain
    let steps = c.rng.int(1, 6);
    let mut chain: Vec<(SelectOp, Crit)> = Vec::new();
    let mut jchain: Vec<Value> = Vec::new();
    for _ in 0..steps {
        let op = *c.rng.pick(&[SelectOp::Add, SelectOp::Remove, SelectOp::Keep]);
        let cr = if c.rng.chance(0.4) {
            Crit::Facing { n: gen::unit3(&mut c.rng) * c.rng.log_range(0.1, 10.0), angle: *c.rng.pick(&[0.3, 1.0, PI / 2.0, 2.0, c.rng.clone().range(0.1, 3.0)]) }
        } else {
            Crit::Near {
                all: c.rng.bool(),
                dist: ext * c.rng.log_range(0.005, 0.3),
                planar: if c.rng.bool() { Some(ext * c.rng.log_range(0.002, 0.2)) } else { None },
                angle: if c.rng.bool() { Some(c.rng.range(0.05, 1.5)) } else { None },
            }
        };
        jchain.push(match &cr {
            Crit::Facing { n, angle } => json!({"op": format!("{op:?}"), "facing": {"n": [n.x, n.y, n.z], "angle": angle}}),
            Crit::Near { all, dist, planar, angle } => json!({"op": format!("{op:?}"), "near_mesh": {"all_points": all, "distance_tol": dist, "planar_tol": planar, "angle_tol": angle}}),
        });
        chain.push((op, cr));
    }
    // starting selection
    let start_kind = c.rng.int(0, 2);
    let mut start_idx: Vec<usize> = (0..nf).filter(|_| c.rng.chance(0.5)).collect();
    c.rng.shuffle(&mut start_idx);
    let start_name = ["none", "all", "indices"][start_kind];
    c.set_case(json!({"mesh": if nf <= 200 { raw.json() } else { json!({"kind": raw.name, "faces": nf}) }, "reference_faces": rref.f.len(), "reference_shift": gen::jiso3(&shift),
                      "start": start_name, "start_indices": if start_kind == 2 { json!(start_idx) } else { json!(null) }, "chain": jchain}));

    // ---- the model
    let mut model: BTreeSet<usize> = match start_kind {
        0 => BTreeSet::new(),
        1 => (0..nf).collect(),
        _ => start_idx.iter().cloned().collect(),
    };
    // faces whose membership is undetermined because some step fell in a guard band
    let mut dont_care: BTreeSet<usize> = BTreeSet::new();
    let mut model_after: Vec<(BTreeSet<usize>, BTreeSet<usize>)> = Vec::new();
    for (op, cr) in &chain {
        for f in 0..nf {
            match predicate(&raw, &refm, ext, f, cr) {
                Some(true) => match op {
                    SelectOp::Add => {
                        model.insert(f);
                    }
                    SelectOp::Remove => {
                        model.remove(&f);
                    }
                    SelectOp::Keep => {}
                },
                Some(false) => {
                    if let SelectOp::Keep = op {
                        model.remove(&f);
                    }
                }
                None => {
                    dont_care.insert(f);
                }
            }
        }
        model_after.push((model.clone(), dont_care.clone()));
    }

    // ---- the library, step by step, repeated and with permuted starting order
    let reps = if c.thorough { 4 } else { 3 };
    let mut first_result: Option<BTreeSet<usize>> = None;
    for rep in 0..reps {
        let mut idx = start_idx.clone();
        if rep > 0 {
            c.rng.shuffle(&mut idx);
        }
        let make_start = |idx: &Vec<usize>| match start_kind {
            0 => Selection::None,
            1 => Selection::All,
            _ => Selection::Indices(idx.clone()),
        };
        // prefix runs: the library's filter is consumed by each step, so every prefix is re-run
        for k in 0..chain.len() {
            if rep > 0 && k + 1 < chain.len() {
                continue; // prefixes are judged on the first repetition only
            }
            let r = guard(|| {
                let mut filt = mesh.face_select(make_start(&idx));
                for (op, cr) in chain.iter().take(k + 1) {
                    filt = match cr {
                        Crit::Facing { n, angle } => filt.facing(n, *angle, *op),
                        Crit::Near { all, dist, planar, angle } => filt.near_mesh(&refm, *all, *dist, *planar, *angle, *op),
                    };
                }
                filt.collect()
            });
            c.eval();
            let got = match r {
                Err(p) => {
                    c.check("TriangleFilter chain", "no-panic", start_name, false, || format!("{} {}", p.sig(), p.msg));
                    return;
                }
                Ok(v) => v,
            };
            let gset: BTreeSet<usize> = got.iter().cloned().collect();
            c.check("TriangleFilter::collect", "no repeated index", start_name, gset.len() == got.len(), || "duplicates".into());
            let (want, dc) = &model_after[k];
            let wrong: Vec<usize> = (0..nf).filter(|f| !dc.contains(f) && gset.contains(f) != want.contains(f)).collect();
            let (op, cr) = &chain[k];
            let api = match cr {
                Crit::Facing { .. } => "TriangleFilter::facing",
                Crit::Near { .. } => "TriangleFilter::near_mesh",
            };
            let class = match cr {
                Crit::Facing { .. } => format!("{op:?}"),
                Crit::Near { all, planar, angle, .. } => format!("{op:?}/{}{}{}", if *all { "all" } else { "any" }, if planar.is_some() { "+planar" } else { "" }, if angle.is_some() { "+angle" } else { "" }),
            };
            let ok = c.check(api, "selection == set operation over the per-face predicate", &class, wrong.is_empty(), || {
                format!("after step {} of {}: {} faces differ from the model (e.g. face {:?}: selected {}, model {}); start {start_name}", k + 1, chain.len(), wrong.len(), wrong.first(), wrong.first().map(|f| gset.contains(f)).unwrap_or(false), wrong.first().map(|f| want.contains(f)).unwrap_or(false))
            });
            if !ok {
                // later steps inherit the difference: only the first failing step is blamed
                return;
            }
            if k + 1 == chain.len() {
                match &first_result {
                    None => first_result = Some(gset.clone()),
                    Some(fr) => {
                        c.check("TriangleFilter chain", "identical result for every repetition and starting order", start_name, *fr == gset, || {
                            format!("repetition {rep}: {} faces selected, first run {}", gset.len(), fr.len())
                        });
                    }
                }
            }
        }
    }

    // ---- mesh built from a selection
    let Some(sel) = first_result else { return };
    if !sel.is_empty() {
        let mut order: Vec<usize> = sel.iter().cloned().collect();
        c.rng.shuffle(&mut order);
        let r = guard(|| {
            let m = mesh.create_from_indices(&order);
            (m.vertices().to_vec(), m.faces().to_vec())
        });
        c.eval();
        match r {
            Err(p) => {
                c.check("Mesh::create_from_indices", "no-panic", "selection", false, || format!("{} {}", p.sig(), p.msg));
            }
            Ok((nv, nfaces)) => {
                let mut ok = nfaces.len() == order.len();
                if ok {
                    for (k, f) in order.iter().enumerate() {
                        let t = raw.f[*f];
                        let q = nfaces[k];
                        for j in 0..3 {
                            if (q[j] as usize) >= nv.len() || nv[q[j] as usize] != raw.v[t[j] as usize] {
                                ok = false;
                            }
                        }
                    }
                }
                c.check("Mesh::create_from_indices", "face k is selected face k with identical coordinates and winding", "selection", ok, || "face mismatch".into());
                let used: BTreeSet<u32> = order.iter().flat_map(|f| raw.f[*f]).collect();
                let referenced: BTreeSet<u32> = nfaces.iter().flatten().cloned().collect();
                c.check("Mesh::create_from_indices", "only the vertices the selected faces use", "selection", nv.len() == used.len() && referenced.len() == nv.len(), || format!("{} vertices for {} referenced", nv.len(), used.len()));
            }
        }
        // create_mesh from the filter: exactly the selected triangles as a multiset
        let r = guard(|| {
            let mut filt = mesh.face_select(match start_kind {
                0 => Selection::None,
                1 => Selection::All,
                _ => Selection::Indices(start_idx.clone()),
            });
            for (op, cr) in chain.iter() {
                filt = match cr {
                    Crit::Facing { n, angle } => filt.facing(n, *angle, *op),
                    Crit::Near { all, dist, planar, angle } => filt.near_mesh(&refm, *all, *dist, *planar, *angle, *op),
                };
            }
            let m = filt.create_mesh();
            (m.vertices().to_vec(), m.faces().to_vec())
        });
        c.eval();
        if let Ok((nv, nfaces)) = r {
            let key = |p: [Point3; 3]| -> [[u64; 3]; 3] { [[p[0].x.to_bits(), p[0].y.to_bits(), p[0].z.to_bits()], [p[1].x.to_bits(), p[1].y.to_bits(), p[1].z.to_bits()], [p[2].x.to_bits(), p[2].y.to_bits(), p[2].z.to_bits()]] };
            let mut got: Vec<[[u64; 3]; 3]> = nfaces.iter().map(|q| key([nv[q[0] as usize], nv[q[1] as usize], nv[q[2] as usize]])).collect();
            let mut want: Vec<[[u64; 3]; 3]> = sel.iter().map(|f| {
                let t = raw.f[*f];
                key([raw.v[t[0] as usize], raw.v[t[1] as usize], raw.v[t[2] as usize]])
            }).collect();
            got.sort();
            want.sort();
            c.check("TriangleFilter::create_mesh", "exactly the selected triangles with identical coordinates and winding", "selection", got == want, || format!("{} faces built, {} selected", got.len(), want.len()));
        } else {
            c.check("TriangleFilter::create_mesh", "no-panic", "selection", false, || "panic".into());
        }
    }
    if !sel.is_empty() && sel.len() < nf {
        c.distinct(&(nf, raw.v[0].x.to_bits(), steps, start_kind, sel.len()));
    }
}


// ---------------------------------------------------------------------------------------------
// meshes built from a selection, on meshes that also carry vertices no face uses

fn run_built(c: &mut Ctx) {
    let mut raw = gen::random_mesh(&mut c.rng, if c.thorough { 600 } else { 200 }, true);
    let nf = raw.f.len();
    // loose vertices: none / appended / prepended
    let loose = c.rng.int(0, 2);
    let k = if loose == 0 { 0 } else { c.rng.int(1, 5) };
    let ext = raw.extent();
    let extra: Vec<Point3> = (0..k).map(|_| Point3::new(c.rng.range(-ext, ext), c.rng.range(-ext, ext), c.rng.range(-ext, ext))).collect();
    match loose {
        1 => raw.v.extend(extra.iter().cloned()),
        2 => {
            let mut v = extra.clone();
            v.extend(raw.v.iter().cloned());
            raw.v = v;
            for t in &mut raw.f {
                for j in 0..3 {
                    t[j] += k as u32;
                }
            }
        }
        _ => {}
    }
    let mesh = raw.to_mesh(false);
    let class = ["all-vertices-used", "unused-vertices-appended", "unused-vertices-prepended"][loose];
    // index list
    let kind = c.rng.int(0, 5);
    let order: Vec<usize> = match kind {
        0 => (0..nf).collect(),
        1 => c.rng.perm(nf),
        2 => (0..nf).map(|_| c.rng.int(0, nf - 1)).collect(), // as long as the face count, with repeats
        3 => {
            let mut v: Vec<usize> = (0..nf).filter(|_| c.rng.chance(0.5)).collect();
            if v.is_empty() {
                v.push(0);
            }
            c.rng.shuffle(&mut v);
            v
        }
        4 => vec![c.rng.int(0, nf - 1)],
        _ => {
            let n = c.rng.int(1, 2 * nf);
            (0..n).map(|_| c.rng.int(0, nf - 1)).collect()
        }
    };
    let kind_name = ["identity", "permutation", "face-count-long-with-repeats", "subset", "single", "random-with-repeats"][kind];
    c.family(&format!("built-mesh/{class}/{kind_name}"));
    c.set_case(json!({"mesh": if nf <= 200 { raw.json() } else { json!({"kind": raw.name, "faces": nf}) }, "indices": order}));
    let judge = |c: &mut Ctx, api: &str, nv: &[Point3], nfaces: &[[u32; 3]], ordered: bool| {
        let key = |p: [Point3; 3]| -> [[u64; 3]; 3] { [[p[0].x.to_bits(), p[0].y.to_bits(), p[0].z.to_bits()], [p[1].x.to_bits(), p[1].y.to_bits(), p[1].z.to_bits()], [p[2].x.to_bits(), p[2].y.to_bits(), p[2].z.to_bits()]] };
        let in_range = nfaces.iter().flatten().all(|i| (*i as usize) < nv.len());
        if !c.check(api, "face indices are in range", class, in_range, || "index out of range".into()) {
            return;
        }
        let mut got: Vec<[[u64; 3]; 3]> = nfaces.iter().map(|q| key([nv[q[0] as usize], nv[q[1] as usize], nv[q[2] as usize]])).collect();
        let mut want: Vec<[[u64; 3]; 3]> = order
            .iter()
            .map(|f| {
                let t = raw.f[*f];
                key([raw.v[t[0] as usize], raw.v[t[1] as usize], raw.v[t[2] as usize]])
            })
            .collect();
        if !ordered {
            got.sort();
            want.sort();
        }
        c.check(api, "exactly the selected triangles with identical coordinates and winding", class, got == want, || format!("{} faces built, {} selected", got.len(), want.len()));
        let used: BTreeSet<u32> = order.iter().flat_map(|f| raw.f[*f]).collect();
        let referenced: BTreeSet<u32> = nfaces.iter().flatten().cloned().collect();
        c.check(api, "only the vertices the selected faces use", class, nv.len() == used.len() && referenced.len() == nv.len(), || {
            format!("{} vertices in the new mesh, {} of them referenced, {} used by the selected faces ({kind_name})", nv.len(), referenced.len(), used.len())
        });
    };
    let r = guard(|| {
        let m = mesh.create_from_indices(&order);
        (m.vertices().to_vec(), m.faces().to_vec())
    });
    c.eval();
    match r {
        Err(p) => {
            c.check("Mesh::create_from_indices", "no-panic", class, false, || format!("{} {}", p.sig(), p.msg));
        }
        Ok((nv, nfaces)) => judge(c, "Mesh::create_from_indices", &nv, &nfaces, true),
    }
    // the same through the filter (a selection is a set: repeats collapse)
    if kind != 2 && kind != 5 {
        let sel = if kind == 0 && c.rng.bool() { Selection::All } else { Selection::Indices(order.clone()) };
        let r = guard(|| {
            let m = mesh.face_select(sel).create_mesh();
            (m.vertices().to_vec(), m.faces().to_vec())
        });
        c.eval();
        match r {
            Err(p) => {
                c.check("TriangleFilter::create_mesh", "no-panic", class, false, || format!("{} {}", p.sig(), p.msg));
            }
            Ok((nv, nfaces)) => judge(c, "TriangleFilter::create_mesh", &nv, &nfaces, false),
        }
    }
    c.distinct(&(nf, raw.v[0].x.to_bits(), kind, loose, order.len()));
}
