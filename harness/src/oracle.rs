//! Independent reference computations (exhaustive scans, closed forms).  Nothing in here calls the
//! routine it is used to judge.

use engeom::{Point2, Point3, Vector2, Vector3};

pub const U: f64 = 2.220446049250313e-16;

// ---------------------------------------------------------------------------------------------
// 2-D / 3-D segments

/// closest point on segment a-b to p: (point, parameter in [0,1])
pub fn closest_on_seg2(a: &Point2, b: &Point2, p: &Point2) -> (Point2, f64) {
    let ab = b - a;
    let d2 = ab.norm_squared();
    if d2 == 0.0 {
        return (*a, 0.0);
    }
    let t = ((p - a).dot(&ab) / d2).clamp(0.0, 1.0);
    (a + ab * t, t)
}

pub fn dist_seg2(a: &Point2, b: &Point2, p: &Point2) -> f64 {
    (closest_on_seg2(a, b, p).0 - p).norm()
}

pub fn closest_on_seg3(a: &Point3, b: &Point3, p: &Point3) -> (Point3, f64) {
    let ab = b - a;
    let d2 = ab.norm_squared();
    if d2 == 0.0 {
        return (*a, 0.0);
    }
    let t = ((p - a).dot(&ab) / d2).clamp(0.0, 1.0);
    (a + ab * t, t)
}

pub fn dist_seg3(a: &Point3, b: &Point3, p: &Point3) -> f64 {
    (closest_on_seg3(a, b, p).0 - p).norm()
}

/// exhaustive minimum distance from p to an open polyline; returns (distance, edge index)
pub fn brute_poly2(v: &[Point2], p: &Point2) -> (f64, usize) {
    let mut best = (f64::INFINITY, 0);
    for i in 0..v.len() - 1 {
        let d = dist_seg2(&v[i], &v[i + 1], p);
        if d < best.0 {
            best = (d, i);
        }
    }
    best
}

pub fn brute_poly3(v: &[Point3], p: &Point3) -> (f64, usize) {
    let mut best = (f64::INFINITY, 0);
    for i in 0..v.len() - 1 {
        let d = dist_seg3(&v[i], &v[i + 1], p);
        if d < best.0 {
            best = (d, i);
        }
    }
    best
}

/// second smallest per-edge distance among edges that are not adjacent to `skip` (used to decide
/// whether an arg-min is unique)
pub fn second_best_poly2(v: &[Point2], p: &Point2, best_edge: usize) -> f64 {
    let mut s = f64::INFINITY;
    for i in 0..v.len() - 1 {
        if (i as i64 - best_edge as i64).abs() <= 1 {
            continue;
        }
        s = s.min(dist_seg2(&v[i], &v[i + 1], p));
    }
    s
}

// ---------------------------------------------------------------------------------------------
// Polyline arc-length model

pub struct PolyModel2 {
    pub v: Vec<Point2>,
    pub cum: Vec<f64>,
}

impl PolyModel2 {
    pub fn new(v: &[Point2]) -> Self {
        let mut cum = vec![0.0];
        for i in 0..v.len() - 1 {
            let d = (v[i + 1] - v[i]).norm();
            cum.push(cum[i] + d);
        }
        PolyModel2 { v: v.to_vec(), cum }
    }
    pub fn len(&self) -> f64 {
        *self.cum.last().unwrap()
    }
    /// edge index containing l (largest i with cum[i] <= l, capped at n-2)
    pub fn edge_of(&self, l: f64) -> usize {
        let n = self.v.len();
        let mut i = match self.cum.binary_search_by(|c| c.partial_cmp(&l).unwrap()) {
            Ok(i) => i,
            Err(i) => i.saturating_sub(1),
        };
        if i > n - 2 {
            i = n - 2;
        }
        i
    }
    /// point at arc length l (clamped to [0,L])
    pub fn at(&self, l: f64) -> Point2 {
        let l = l.clamp(0.0, self.len());
        let i = self.edge_of(l);
        let e = self.cum[i + 1] - self.cum[i];
        let f = if e > 0.0 { (l - self.cum[i]) / e } else { 0.0 };
        self.v[i] + (self.v[i + 1] - self.v[i]) * f
    }
    pub fn extent(&self) -> f64 {
        let (mut lo, mut hi) = ([f64::INFINITY; 2], [f64::NEG_INFINITY; 2]);
        for p in &self.v {
            for k in 0..2 {
                lo[k] = lo[k].min(p[k]);
                hi[k] = hi[k].max(p[k]);
            }
        }
        (hi[0] - lo[0]).hypot(hi[1] - lo[1])
    }
    pub fn offset(&self) -> f64 {
        self.v.iter().map(|p| p.coords.norm()).fold(0.0, f64::max)
    }
    /// data-scaled absolute tolerance k·u·(extent+offset+length)
    pub fn eps(&self, k: f64) -> f64 {
        k * U * (self.extent() + self.offset() + self.len())
    }
    pub fn dist(&self, p: &Point2) -> f64 {
        brute_poly2(&self.v, p).0
    }
}

pub struct PolyModel3 {
    pub v: Vec<Point3>,
    pub cum: Vec<f64>,
}

impl PolyModel3 {
    pub fn new(v: &[Point3]) -> Self {
        let mut cum = vec![0.0];
        for i in 0..v.len() - 1 {
            let d = (v[i + 1] - v[i]).norm();
            cum.push(cum[i] + d);
        }
        PolyModel3 { v: v.to_vec(), cum }
    }
    pub fn len(&self) -> f64 {
        *self.cum.last().unwrap()
    }
    pub fn edge_of(&self, l: f64) -> usize {
        let n = self.v.len();
        let mut i = match self.cum.binary_search_by(|c| c.partial_cmp(&l).unwrap()) {
            Ok(i) => i,
            Err(i) => i.saturating_sub(1),
        };
        if i > n - 2 {
            i = n - 2;
        }
        i
    }
    pub fn at(&self, l: f64) -> Point3 {
        let l = l.clamp(0.0, self.len());
        let i = self.edge_of(l);
        let e = self.cum[i + 1] - self.cum[i];
        let f = if e > 0.0 { (l - self.cum[i]) / e } else { 0.0 };
        self.v[i] + (self.v[i + 1] - self.v[i]) * f
    }
    pub fn extent(&self) -> f64 {
        let (mut lo, mut hi) = ([f64::INFINITY; 3], [f64::NEG_INFINITY; 3]);
        for p in &self.v {
            for k in 0..3 {
                lo[k] = lo[k].min(p[k]);
                hi[k] = hi[k].max(p[k]);
            }
        }
        ((hi[0] - lo[0]).powi(2) + (hi[1] - lo[1]).powi(2) + (hi[2] - lo[2]).powi(2)).sqrt()
    }
    pub fn offset(&self) -> f64 {
        self.v.iter().map(|p| p.coords.norm()).fold(0.0, f64::max)
    }
    pub fn eps(&self, k: f64) -> f64 {
        k * U * (self.extent() + self.offset() + self.len())
    }
    pub fn dist(&self, p: &Point3) -> f64 {
        brute_poly3(&self.v, p).0
    }
}

// ---------------------------------------------------------------------------------------------
// Triangles

/// Closest point on triangle abc to p (Ericson, Real-Time Collision Detection 5.1.5)
pub fn closest_on_tri(a: &Point3, b: &Point3, c: &Point3, p: &Point3) -> Point3 {
    let ab = b - a;
    let ac = c - a;
    let ap = p - a;
    let d1 = ab.dot(&ap);
    let d2 = ac.dot(&ap);
    if d1 <= 0.0 && d2 <= 0.0 {
        return *a;
    }
    let bp = p - b;
    let d3 = ab.dot(&bp);
    let d4 = ac.dot(&bp);
    if d3 >= 0.0 && d4 <= d3 {
        return *b;
    }
    let vc = d1 * d4 - d3 * d2;
    if vc <= 0.0 && d1 >= 0.0 && d3 <= 0.0 {
        let v = d1 / (d1 - d3);
        return a + ab * v;
    }
    let cp = p - c;
    let d5 = ab.dot(&cp);
    let d6 = ac.dot(&cp);
    if d6 >= 0.0 && d5 <= d6 {
        return *c;
    }
    let vb = d5 * d2 - d1 * d6;
    if vb <= 0.0 && d2 >= 0.0 && d6 <= 0.0 {
        let w = d2 / (d2 - d6);
        return a + ac * w;
    }
    let va = d3 * d6 - d5 * d4;
    if va <= 0.0 && (d4 - d3) >= 0.0 && (d5 - d6) >= 0.0 {
        let w = (d4 - d3) / ((d4 - d3) + (d5 - d6));
        return b + (c - b) * w;
    }
    let denom = 1.0 / (va + vb + vc);
    let v = vb * denom;
    let w = vc * denom;
    a + ab * v + ac * w
}

/// Robust distance from p to triangle abc: min over the Ericson point and the three edges (the
/// edge scan protects the oracle against cancellation in sliver triangles).
pub fn dist_tri(a: &Point3, b: &Point3, c: &Point3, p: &Point3) -> f64 {
    let q = closest_on_tri(a, b, c, p);
    let mut d = (q - p).norm();
    d = d.min(dist_seg3(a, b, p)).min(dist_seg3(b, c, p)).min(dist_seg3(c, a, p));
    d
}

pub fn tri_normal(a: &Point3, b: &Point3, c: &Point3) -> Option<Vector3> {
    let n = (b - a).cross(&(c - a));
    let l = n.norm();
    if l > 0.0 {
        Some(n / l)
    } else {
        None
    }
}

/// exhaustive distance from p to a triangle soup: (distance, face index)
pub fn brute_mesh(v: &[Point3], f: &[[u32; 3]], p: &Point3) -> (f64, usize) {
    let mut best = (f64::INFINITY, 0);
    for (i, t) in f.iter().enumerate() {
        let d = dist_tri(&v[t[0] as usize], &v[t[1] as usize], &v[t[2] as usize], p);
        if d < best.0 {
            best = (d, i);
        }
    }
    best
}

/// all faces whose distance to p is within `tol` of `d`
pub fn faces_within(v: &[Point3], f: &[[u32; 3]], p: &Point3, d: f64) -> Vec<usize> {
    let mut out = Vec::new();
    for (i, t) in f.iter().enumerate() {
        if dist_tri(&v[t[0] as usize], &v[t[1] as usize], &v[t[2] as usize], p) <= d {
            out.push(i);
        }
    }
    out
}

// ---------------------------------------------------------------------------------------------
// misc

pub fn cross2(a: &Vector2, b: &Vector2) -> f64 {
    a.x * b.y - a.y * b.x
}

pub fn rot2(v: &Vector2, ang: f64) -> Vector2 {
    let (s, c) = ang.sin_cos();
    Vector2::new(c * v.x - s * v.y, s * v.x + c * v.y)
}

/// signed area of a closed polygon (shoelace); positive = counter-clockwise
pub fn signed_area(v: &[Point2]) -> f64 {
    let n = v.len();
    let mut a = 0.0;
    for i in 0..n {
        let p = v[i];
        let q = v[(i + 1) % n];
        a += p.x * q.y - q.x * p.y;
    }
    a / 2.0
}

/// Andrew monotone chain convex hull, returns indices counter-clockwise, collinear points dropped
pub fn hull_indices(pts: &[Point2]) -> Vec<usize> {
    let mut idx: Vec<usize> = (0..pts.len()).collect();
    idx.sort_by(|&a, &b| pts[a].x.partial_cmp(&pts[b].x).unwrap().then(pts[a].y.partial_cmp(&pts[b].y).unwrap()));
    idx.dedup_by(|a, b| pts[*a] == pts[*b]);
    if idx.len() < 3 {
        return idx;
    }
    let cr = |o: usize, a: usize, b: usize| cross2(&(pts[a] - pts[o]), &(pts[b] - pts[o]));
    let mut h: Vec<usize> = Vec::new();
    for &i in &idx {
        while h.len() >= 2 && cr(h[h.len() - 2], h[h.len() - 1], i) <= 0.0 {
            h.pop();
        }
        h.push(i);
    }
    let lower = h.len() + 1;
    for &i in idx.iter().rev().skip(1) {
        while h.len() >= lower && cr(h[h.len() - 2], h[h.len() - 1], i) <= 0.0 {
            h.pop();
        }
        h.push(i);
    }
    h.pop();
    h
}
