use engeom::geom3::mesh::UvMapping;
use engeom::Point2;
fn main() {
    let m = UvMapping::new(vec![Point2::new(0.0, 0.0), Point2::new(1.0, 0.0), Point2::new(0.0, 1.0)], vec![[0, 1, 2]]).unwrap();
    for q in [Point2::new(0.25, 0.25), Point2::new(0.1, 0.6), Point2::new(0.5, 0.0), Point2::new(2.0, 2.0)] {
        println!("{q:?} -> {:?}", m.triangle(&q));
    }
}
